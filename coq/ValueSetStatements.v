(* ValueSetStatements.v -- C14, C15, C17 as propositions over ValueSet.v. *)
From ArgMapper Require Import Base Types ValueSet CheckValueSet.
Set Implicit Arguments.
Local Open Scope Z_scope.

Fixpoint has_char (c : ascii) (s : string) : bool :=
  match s with EmptyString => false | String x r => Ascii.eqb x c || has_char c r end.

(* ================= C14 ================= *)
Definition C14_statement : Prop :=
  (* rejected exactly when: not a function, a marker struct mixed with other
     parameters/results, or a marker struct behind more than one pointer *)
  (forall isfunc ins outs,
      new_func_sig isfunc ins outs = None <->
      (isfunc = false \/ honourable ins = false \/ honourable (strip_err outs) = false)) /\
  (* a final error result is not an output *)
  (forall ins outs, new_func_sig true ins (outs ++ [IErr]) =
                    match new_value_set ins, new_value_set outs with Some i, Some o => Some (i, o) | _, _ => None end) /\
  (* positional form: one type-only value per parameter, in order *)
  (forall ts, new_value_set (map IPlain ts) = Some (map (fun t => mkIV EmptyString t EmptyString) ts) \/
              exists t, ts = [t]) /\
  (forall t, new_value_set [IPlain t] = Some [mkIV EmptyString t EmptyString]) /\
  (* struct form: one value per exported non-marker field, in declaration
     order; pointer-to-struct is equivalent to struct *)
  (forall fs, new_value_set [IStruct 0 fs] = Some (map field_value (filter (fun f => if_exported f && negb (if_marker f)) fs)) /\
              new_value_set [IStruct 1 fs] = new_value_set [IStruct 0 fs]) /\
  (* naming: always lower case; without a tag the field name; a tag's first
     part, when non-empty, replaces the field name; typeOnly empties it;
     subtype=... gives the subtype (text after the FIRST '=') *)
  (forall f, iv_name (field_value f) = lower (iv_name (field_value f)) /\ iv_ty (field_value f) = if_ty f) /\
  (forall n e t m, field_value (mkIF n e EmptyString t m) = mkIV (lower n) t EmptyString) /\
  (forall n e t m tagname,
      has_char "," tagname = false -> tagname <> EmptyString ->
      field_value (mkIF n e tagname t m) = mkIV (lower tagname) t EmptyString) /\
  (forall n e t m tagname sub,
      has_char "," tagname = false -> has_char "," sub = false ->
      field_value (mkIF n e (tagname ++ ",typeOnly,subtype=" ++ sub) t m) = mkIV EmptyString t sub) /\
  (forall n e t m sub,
      has_char "," sub = false ->
      field_value (mkIF n e (",subtype=" ++ sub) t m) = mkIV (lower n) t sub).

(* ================= C15 ================= *)
Definition vs_ok (vs : list ivalue) : Prop :=
  (forall v, In v vs -> has_char "," (iv_sub v) = false) /\
  NoDup (flat_map (fun v => if Base.eqb (iv_name v) EmptyString then [] else [lower (iv_name v)]) vs).
Definition C15_statement : Prop :=
  forall vs, vs_ok vs ->
    let m := new_value_set_of vs in
    (* reports the values back, names lower-cased, in order *)
    m = map (fun v => mkIV (lower (iv_name v)) (iv_ty v) (iv_sub v)) vs /\
    (* finds each named value by its name *)
    (forall v, In v vs -> iv_name v <> EmptyString ->
               vs_named m (lower (iv_name v)) = Some (mkIV (lower (iv_name v)) (iv_ty v) (iv_sub v))) /\
    (* finds a type-only value of the type whenever there is one *)
    (forall v, In v vs -> iv_name v = EmptyString ->
               exists r, vs_typed m (iv_ty v) = Some r /\ In r m /\ iv_name r = EmptyString /\ iv_ty r = iv_ty v) /\
    (* by type and subtype when no other value shares both *)
    (forall v, In v vs ->
               (forall w, In w vs -> iv_ty w = iv_ty v -> iv_sub w = iv_sub v -> w = v) ->
               vs_typed_subtype m (iv_ty v) (iv_sub v) = Some (mkIV (lower (iv_name v)) (iv_ty v) (iv_sub v))).

(* ================= C17 ================= *)
Definition C17_statement : Prop :=
  (* k values followed by an error: length k, outputs in order, Err is the final value (nil when nil) *)
  (forall (outs : list rraw) e,
      res_len (outs ++ [mkRR RKErrIface e]) = Z.of_nat (List.length outs) /\
      (forall i, (i < List.length outs)%nat -> res_out (outs ++ [mkRR RKErrIface e]) i = option_map rr_id (nth_error outs i)) /\
      res_err None (outs ++ [mkRR RKErrIface e]) = (if e =? 0 then None else Some e)) /\
  (* no final error: everything is an output, Err is nil; a final value of a
     concrete error type or an error that is not last are ordinary outputs *)
  (forall (outs : list rraw),
      (match rev outs with r :: _ => rr_kind r <> RKErrIface | [] => True end) ->
      res_len outs = Z.of_nat (List.length outs) /\
      (forall i, res_out outs i = option_map rr_id (nth_error outs i)) /\
      res_err None outs = None) /\
  (* resolution failure: length 0 and a non-nil error *)
  (forall e, res_len [] = 0 /\ res_err (Some e) [] = Some e).

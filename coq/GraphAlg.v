(* GraphAlg.v -- model of internal/graph algorithms:
   dijkstra.go, path.go, dfs.go, kahn.go, tarjan.go.
   Model file: definitions only.  Every Go map iteration whose order can
   reach a result takes its order from the tape. *)
From ArgMapper Require Import Base Graph.
Set Implicit Arguments.
Local Open Scope Z_scope.

(* tape sites *)
Definition SITE_POP : N := 1%N.        (* Dijkstra: element returned by heap.Pop *)
Definition SITE_DFS : N := 2%N.        (* dfs: range g.adjacencyOut[v] *)
Definition SITE_KAHN_S : N := 3%N.     (* KahnSort: range g.adjacencyIn *)
Definition SITE_KAHN_M : N := 4%N.     (* KahnSort: range g.adjacencyOut[n] *)
Definition SITE_SCC_V : N := 5%N.      (* StronglyConnected: g.Vertices() *)
Definition SITE_SCC_OUT : N := 6%N.    (* stronglyConnected: g.OutEdges(v) *)

Definition INF : Z := 9223372036854775807.          (* distInfinity = MaxInt (64 bit) *)
Definition wrap64 (z : Z) : Z := (z + 9223372036854775808) mod 18446744073709551616 - 9223372036854775808.

Section Alg.
  Context {K : Type} `{EqDec K} {V : Type}.
  Notation graph := (graph K V).

  (* ---------------- Dijkstra ---------------- *)
  Record dstate := mkD { unvis : list K; dist : amap K Z; prev : amap K K }.

  Definition getd (d : amap K Z) (k : K) : Z :=
    match lookup k d with Some x => x | None => INF end.

  (* u is an admissible result of heap.Pop: unvisited and of minimal distance *)
  Definition is_min (st : dstate) (u : K) : bool :=
    memb u (unvis st) && forallb (fun x => getd (dist st) u <=? getd (dist st) x) (unvis st).

  Definition relax1 (u : K) (du : Z) (r : res dstate) (e : K * Z) : res dstate :=
    do st <- r;
    let (v, w) := e in
    match lookup v (dist st) with
    | None => Panic 101%N           (* queueItem[vhash] is nil: edge to an unknown vertex *)
    | Some dv =>
        if memb v (unvis st) then
          let t := wrap64 (du + w) in
          if t <? dv then Ok (mkD (unvis st) (insert v t (dist st)) (insert v u (prev st)))
          else Ok st
        else Ok st
    end.

  Definition dstep (g : graph) (st : dstate) (u : K) : res dstate :=
    if is_min st u then
      let st1 := mkD (remove1 u (unvis st)) (dist st) (prev st) in
      let du := getd (dist st) u in
      if du =? INF then Ok st1
      else fold_left (relax1 u du) (inner (gout g) u) (Ok st1)
    else TapeErr SITE_POP.

  Fixpoint dloop (g : graph) (st : dstate) (pops : list K) : res dstate :=
    match pops with
    | [] => match unvis st with [] => Ok st | _ => TapeErr SITE_POP end
    | u :: pops => do st' <- dstep g st u; dloop g st' pops
    end.

  Definition dinit (g : graph) (src : K) : res dstate :=
    let ks := g_vertex_keys g in
    if memb src ks then
      Ok (mkD ks (insert src 0%Z (map (fun k => (k, INF)) ks)) [])
    else Panic 100%N.               (* queueItem[srchash] is nil *)

  (* Dijkstra(src) under the pop sequence [pops]: (distTo, edgeTo) *)
  Definition dijkstra (g : graph) (src : K) (pops : list K) : res (amap K Z * amap K K) :=
    do st0 <- dinit g src;
    do st <- dloop g st0 pops;
    Ok (dist st, prev st).

  (* the pop sequence is read from the tape: one record per pop *)
  Fixpoint take_pops (n : nat) (t : tape K) : res (list K * tape K) :=
    match n with
    | O => Ok ([], t)
    | S n => match take_site SITE_POP t with
             | Some ([u], t') => do (us, t'') <- take_pops n t'; Ok (u :: us, t'')
             | _ => TapeErr SITE_POP
             end
    end.

  Definition dijkstra_t (g : graph) (src : K) (t : tape K) : res (amap K Z * amap K K * tape K) :=
    do (pops, t') <- take_pops (length (g_vertex_keys g)) t;
    do (d, p) <- dijkstra g src pops;
    Ok (d, p, t').

  (* ---------------- EdgeToPath ---------------- *)
  Fixpoint etp (fuel : nat) (p : amap K K) (cur : K) (acc : list K) : res (list K) :=
    match fuel with
    | O => OutOfFuel
    | S f => match lookup cur p with
             | None => Ok (cur :: acc)
             | Some q => etp f p q (cur :: acc)
             end
    end.
  Definition edge_to_path (g : graph) (p : amap K K) (target : K) : res (list K) :=
    etp (S (length (g_vertex_keys g))) p target [].

  (* ---------------- DFS ---------------- *)
  Record dfs_st := mkDfs { visited : list K; reported : list K; dtape : tape K }.

  (* cb(w, next): report w; abort the traversal when [stop w]; descend
     (call next) when [desc w] *)
  Section DFS.
    Variable g : graph.
    Variables desc stop : K -> bool.

    Fixpoint dfs (fuel : nat) (v : K) (st : dfs_st) : res (dfs_st * bool) :=
      match fuel with
      | O => OutOfFuel
      | S f =>
          let st := mkDfs (v :: visited st) (reported st) (dtape st) in
          do (ws, t') <- take_perm SITE_DFS (g_out_keys g v) (dtape st);
          (fix loop (ws : list K) (st : dfs_st) : res (dfs_st * bool) :=
             match ws with
             | [] => Ok (st, false)
             | w :: ws =>
                 if memb w (visited st) then loop ws st
                 else
                   let st := mkDfs (visited st) (reported st ++ [w]) (dtape st) in
                   if stop w then Ok (st, true)
                   else if desc w then
                          do (st', ab) <- dfs f w st;
                          if (ab : bool) then Ok (st', true) else loop ws st'
                        else loop ws st
             end) ws (mkDfs (visited st) (reported st) t')
      end.
  End DFS.

  Definition dfs_run (g : graph) (desc stop : K -> bool) (start : K) (t : tape K)
    : res (list K * bool * tape K) :=
    do (st, ab) <- dfs g desc stop (S (length (g_vertex_keys g))) start (mkDfs [] [] t);
    Ok (reported st, ab, dtape st).

  (* ---------------- KahnSort ---------------- *)
  Definition indeg0 (g : graph) (k : K) : bool :=
    match inner (gin g) k with [] => true | _ => false end.

  Fixpoint kahn_edges (g : graph) (n : K) (ms : list K) (S : list K) : graph * list K :=
    match ms with
    | [] => (g, S)
    | m :: ms =>
        let g := g_remove_edge g n m in
        kahn_edges g n ms (if indeg0 g m then S ++ [m] else S)
    end.

  Fixpoint kahn_loop (fuel : nat) (g : graph) (S L : list K) (t : tape K)
    : res (graph * list K * tape K) :=
    match fuel with
    | O => OutOfFuel
    | S f =>
        match rev S with
        | [] => Ok (g, L, t)
        | n :: rS =>
            do (ms, t') <- take_perm SITE_KAHN_M (g_out_keys g n) t;
            let (g', S') := kahn_edges g n ms (rev rS) in
            kahn_loop f g' S' (L ++ [n]) t'
        end
    end.

  Definition has_edges (g : graph) : bool :=
    existsb (fun kv => match snd kv with [] => false | _ => true end) (gout g).

  Definition kahn (g : graph) (t : tape K) : res (list K * tape K) :=
    do (ks, t1) <- take_perm SITE_KAHN_S (keys (gin g)) t;
    let S0 := filter (indeg0 g) ks in
    do (g', L, t2) <- kahn_loop (S (length (keys (gin g)))) g S0 [] t1;
    if has_edges g' then Panic 200%N (* "graph has cycles" *) else Ok (L, t2).

  (* ---------------- TopoShortestPath ---------------- *)
  Definition tsp_edge (u : K) (acc : amap K Z * amap K K) (e : K * Z) : amap K Z * amap K K :=
    let (d, p) := acc in
    let (v, w) := e in
    let du := match lookup u d with Some x => x | None => 0%Z end in
    let x := wrap64 (du + w) in
    match lookup v d with
    | Some dv => if x <? dv then (insert v x d, insert v u p) else (d, p)
    | None => (insert v x d, insert v u p)
    end.

  Definition topo_shortest_path (g : graph) (L : list K) : amap K Z * amap K K :=
    fold_left (fun acc u => fold_left (tsp_edge u) (inner (gout g) u) acc) L ([], []).

  (* ---------------- Tarjan ---------------- *)
  Record scc_st := mkScc {
    nexti : nat; vidx : amap K nat; stack : list K; sccs : list (list K); stape : tape K }.

  Definition idx_of (st : scc_st) (k : K) : nat :=
    match lookup k (vidx st) with Some i => i | None => O end.

  (* pop until (and including) v; the stack grows at its head *)
  Fixpoint pop_until (v : K) (stk : list K) (acc : list K) : list K * list K :=
    match stk with
    | [] => (acc, [])             (* pop() on an empty stack returns nil; cannot happen *)
    | x :: stk => if eqb x v then (acc ++ [x], stk) else pop_until v stk (acc ++ [x])
    end.

  Section SCC.
    Variable g : graph.
    Fixpoint scc (fuel : nat) (v : K) (st : scc_st) : res (scc_st * nat) :=
      match fuel with
      | O => OutOfFuel
      | S f =>
          let index := nexti st in
          let st := mkScc (S index) (insert v index (vidx st)) (v :: stack st) (sccs st) (stape st) in
          do (ws, t') <- take_perm SITE_SCC_OUT (g_out_keys g v) (stape st);
          do (st, minIdx) <-
            (fix loop (ws : list K) (st : scc_st) (minIdx : nat) : res (scc_st * nat) :=
               match ws with
               | [] => Ok (st, minIdx)
               | w :: ws =>
                   let ti := idx_of st w in
                   match ti with
                   | O => do (st', r) <- scc f w st; loop ws st' (Nat.min minIdx r)
                   | _ => if memb w (stack st) then loop ws st (Nat.min minIdx ti)
                          else loop ws st minIdx
                   end
               end) ws (mkScc (nexti st) (vidx st) (stack st) (sccs st) t') index;
          if Nat.eqb index minIdx then
            let (comp, stk') := pop_until v (stack st) [] in
            Ok (mkScc (nexti st) (vidx st) stk' (sccs st ++ [comp]) (stape st), minIdx)
          else Ok (st, minIdx)
      end.
  End SCC.

  Definition strongly_connected (g : graph) (t : tape K) : res (list (list K) * tape K) :=
    do (vs, t1) <- take_perm SITE_SCC_V (g_vertex_keys g) t;
    do st <- fold_left (fun r v =>
                          do st <- r;
                          match idx_of st v with
                          | O => do (st', _) <- scc g (S (length (g_vertex_keys g))) v st; Ok st'
                          | _ => Ok st
                          end) vs (Ok (mkScc 1%nat [] [] [] t1));
    Ok (sccs st, stape st).
End Alg.

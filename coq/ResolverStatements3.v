(* C08, second half: the function returned by Redefine is callable.
   Statement only; proved in proofs/C08Callable*.v. *)
From Coq Require Import List ZArith Bool String.
From ArgMapper Require Import Base Graph GraphAlg Types Args Resolver ResolverSpec Monitors Monitors2
     ResolverStatements ResolverStatements2.
Import ListNotations.
Open Scope Z_scope.

(* one value per declared input of the redefined function, of the declared type *)
Definition ivs_for (ins : list rfield) (ivs : list (rfield * value)) : Prop :=
  map fst ivs = ins /\ forall iv, In iv ivs -> v_ty (snd iv) = rfield_ty (fst iv).

Definition not_missing_argument (r : run) : Prop :=
  match run_out r with
  | OErr (XUnsat _ _ _ _) | OErr XMissing | OErr XBuild => False
  | _ => True
  end.

(* On the property's domain (c08_domain), from a fresh world: when Redefine
   succeeds with inputs `ins`, the original Call with the Redefine options
   plus one value per declared input (what the redefined function's body
   does) never fails for lack of an argument -- for EVERY order tape of that
   call, every behaviour of the user functions and every choice of values.
   Its result is then the target's own result or the error of a failing
   converter (C04/C17).  Side conditions as in C05: transitive implements
   relation, fewer than (2^63-1)/20 vertices in the call graph of the second
   call. *)
Definition C08_callable_statement : Prop :=
  forall u bh f d opts b t ins r ivs t',
    build_args d opts = Some b -> wf_call u f b = true -> c08_domain u f b = true ->
    redefine u f d opts world0 t = Ok (inl ins, r) ->
    ivs_for ins ivs ->
    (forall b' fg tr, build_args d (redefined_opts opts ivs) = Some b' ->
                      full_graph u f b' false t' = Ok (inl fg, tr) ->
                      20 * (Z.of_nat (List.length (g_vertex_keys (fg_g fg))) + 1) < INF) ->
    (forall a b c, implements u a b = true -> implements u b c = true -> implements u a c = true) ->
    (exists r', call u bh f d (redefined_opts opts ivs) world0 t' = Ok r' /\ not_missing_argument r') \/
    (exists s, call u bh f d (redefined_opts opts ivs) world0 t' = TapeErr s).

(* ValueSet.v -- model of value_set.go (introspection of Go signatures:
   newValueSet, newValueSetFromStruct, tag parsing; NewValueSet and the
   accessors), struct.go (marker detection), func.go:NewFunc (signature
   part) and result.go (Len / Out / Err).  Model file. *)
From ArgMapper Require Import Base Types.
Set Implicit Arguments.
Local Open Scope Z_scope.

(* ---------- strings.Split(s, ","), strings.Index(s, "=") ---------- *)
Fixpoint split_on (c : ascii) (s : string) (cur : string) : list string :=
  match s with
  | EmptyString => [cur]
  | String x rest => if Ascii.eqb x c then cur :: split_on c rest EmptyString
                     else split_on c rest (cur ++ String x EmptyString)%string
  end.
Definition split_comma (s : string) : list string := split_on "," s EmptyString.

(* (before, after) of the first "=", or None *)
Fixpoint cut_eq (s : string) (pre : string) : option (string * string) :=
  match s with
  | EmptyString => None
  | String x rest => if Ascii.eqb x "=" then Some (pre, rest)
                     else cut_eq rest (pre ++ String x EmptyString)%string
  end.

(* ---------- Go types as far as introspection looks at them ---------- *)
Inductive gotype :=
| GPlain (t : ty)                       (* any non-struct type, identified by number *)
| GStruct (fs : list sfield)            (* struct; fields may include the marker *)
| GPtr (g : gotype)
| GError                                (* the interface type error *)
with sfield :=
| SField (name : string) (exported : bool) (tag : string) (t : gotype)   (* tag = value of the argmapper key, "" if absent *)
| SMarker.                               (* embedded argmapper.Struct *)

Fixpoint strip_ptrs (g : gotype) : gotype * nat :=
  match g with
  | GPtr g' => let (b, n) := strip_ptrs g' in (b, S n)
  | _ => (g, O)
  end.

Definition is_marker (f : sfield) : bool := match f with SMarker => true | _ => false end.
Definition is_struct (g : gotype) : bool :=
  match fst (strip_ptrs g) with
  | GStruct fs => existsb is_marker fs
  | _ => false
  end.

(* identity of a field's type as a value type: plain types by number; other
   shapes (nested structs, pointers, error) get numbers from the harness too,
   so fields carry a [ty] directly *)
Record ifield := mkIF { if_name : string; if_exported : bool; if_tag : string; if_ty : ty; if_marker : bool }.
Inductive isig :=                  (* one parameter or result as introspection sees it *)
| IPlain (t : ty)                  (* not a marker struct *)
| IStruct (ptrs : nat) (fs : list ifield)   (* marker struct behind [ptrs] pointers *)
| IErr.                            (* the interface type error *)

Record ivalue := mkIV { iv_name : string; iv_ty : ty; iv_sub : string }.

(* options map: later duplicates overwrite *)
Fixpoint parse_opts (parts : list string) (acc : amap string string) : amap string string :=
  match parts with
  | [] => acc
  | p :: rest => match cut_eq p EmptyString with
                 | Some (k, v) => parse_opts rest (insert k v acc)
                 | None => parse_opts rest (insert p EmptyString acc)
                 end
  end.

Definition field_value (f : ifield) : ivalue :=
  let '(name, opts) :=
    if Base.eqb (if_tag f) EmptyString then (if_name f, [])
    else match split_comma (if_tag f) with
         | p0 :: rest => ((if Base.eqb p0 EmptyString then if_name f else p0), parse_opts rest [])
         | [] => (if_name f, [])
         end in
  let name := lower name in
  let name := if mem "typeOnly"%string opts then EmptyString else name in
  mkIV name (if_ty f) (match lookup "subtype"%string opts with Some s => s | None => EmptyString end).

(* newValueSetFromStruct: None = error *)
Definition from_struct (ptrs : nat) (fs : list ifield) : option (list ivalue) :=
  if Nat.ltb 1 ptrs then None
  else Some (map field_value (filter (fun f => if_exported f && negb (if_marker f)) fs)).

(* newValueSet(count, get) *)
Definition new_value_set (ps : list isig) : option (list ivalue) :=
  match ps with
  | [] => Some []
  | [IStruct n fs] => from_struct n fs
  | _ => if existsb (fun p => match p with IStruct _ _ => true | _ => false end) ps
         then None                      (* can't mix argmapper.Struct and non-struct values *)
         else Some (map (fun p => match p with
                                  | IPlain t => mkIV EmptyString t EmptyString
                                  | IErr => mkIV EmptyString (-100) EmptyString   (* the type error, as a value *)
                                  | IStruct _ _ => mkIV EmptyString 0 EmptyString
                                  end) ps)
  end.

(* NewFunc: None = error.  [isfunc] false: not a function (or nil) *)
Definition new_func_sig (isfunc : bool) (ins outs : list isig) : option (list ivalue * list ivalue) :=
  if negb isfunc then None
  else
    let outs' := match rev outs with
                 | IErr :: r => rev r
                 | _ => outs
                 end in
    match new_value_set ins, new_value_set outs' with
    | Some i, Some o => Some (i, o)
    | _, _ => None
    end.

(* ---------- NewValueSet and accessors (C15) ---------- *)
(* a value set built from a list of values: the struct has one field per
   value (name upper-cased as Go field name, tags rebuilt) and is parsed
   back by newValueSetFromStruct *)
Definition nvs_field (i : nat) (v : ivalue) : ifield :=
  let tags := [EmptyString] ++ (if Base.eqb (iv_name v) EmptyString then ["typeOnly"%string] else []) ++
              (if Base.eqb (iv_sub v) EmptyString then [] else [("subtype=" ++ iv_sub v)%string]) in
  let tag := String.concat "," tags in
  mkIF (if Base.eqb (iv_name v) EmptyString then "V__Type"%string else upper (iv_name v)) true tag (iv_ty v) false.
Definition new_value_set_of (vs : list ivalue) : list ivalue :=
  map field_value (map (fun iv => nvs_field (fst iv) (snd iv)) (combine (seq 0 (List.length vs)) vs)).

Definition vs_named (vs : list ivalue) (n : string) : option ivalue :=
  fold_left (fun acc v => if negb (Base.eqb (iv_name v) EmptyString) && Base.eqb (iv_name v) n then Some v else acc) vs None.
Definition vs_typed (vs : list ivalue) (t : ty) : option ivalue :=
  fold_left (fun acc v => if Base.eqb (iv_name v) EmptyString && (iv_ty v =? t) then Some v else acc) vs None.
Definition vs_typed_subtype (vs : list ivalue) (t : ty) (st : string) : option ivalue :=
  find (fun v => (iv_ty v =? t) && Base.eqb (iv_sub v) st) vs.

(* ---------- result.go (C17) ---------- *)
Inductive rkind := RKPlain | RKErrIface | RKErrConcrete.
(* a raw return value: its static kind and its identity (0 = nil) *)
Record rraw := mkRR { rr_kind : rkind; rr_id : Z }.
Definition has_error (out : list rraw) : bool :=
  match rev out with
  | r :: _ => match rr_kind r with RKErrIface => true | _ => false end
  | [] => false
  end.
Definition res_len (out : list rraw) : Z := Z.of_nat (List.length out) - (if has_error out then 1 else 0).
Definition res_err (builderr : option Z) (out : list rraw) : option Z :=
  match builderr with
  | Some e => Some e
  | None => match rev out with
            | r :: _ => match rr_kind r with
                        | RKErrIface => if rr_id r =? 0 then None else Some (rr_id r)
                        | _ => None end
            | [] => None
            end
  end.
Definition res_out (out : list rraw) (i : nat) : option Z := option_map rr_id (nth_error out i).

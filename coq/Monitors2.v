(* Monitors2.v -- monitors for C07, C08, C09, C10, C11 (on the
   implementation's observations; the same predicates are used by the
   theorems where stated) and the per-stream checkers built from them. *)
From ArgMapper Require Import Base Graph GraphAlg Types Args Resolver ResolverSpec CheckResolver Monitors.
Set Implicit Arguments.
Local Open Scope Z_scope.

(* ---------- C07: name affinity (families F1 and F2, see DESIGN.md) ----------
   Family F1: target with one named parameter (n, U); one type-only
   converter T -> U; k >= 2 supplied named values of type T, one of them
   named n.  The converter must receive the value named n.
   Family F2: additionally a converter taking (n, T) by name: it must be the
   one that runs. *)
(* the supplied value named n (with or without a subtype label) *)
Definition named_val (b : builder) (n : string) : option value :=
  match lookup n (b_named b) with
  | Some v => Some v
  | None => match find (fun kv => Base.eqb (fst (fst kv)) n) (b_namedsub b) with
            | Some kv => Some (snd kv) | None => None end
  end.
Definition c07_f1_ok (n : string) (b : builder) (conv : Z) (o : call_obs) : bool :=
  match named_val b n with
  | Some v =>
      co_ok o &&
      existsb (fun e => match e with
                        | EExec fid [a] _ _ => (fid =? conv) && (v_id a =? v_id v)
                        | _ => false end) (co_events o) &&
      forallb (fun e => match e with
                        | EExec fid [a] _ _ => if fid =? conv then v_id a =? v_id v else true
                        | _ => true end) (co_events o)
  | None => true
  end.
Definition c07_f2_ok (named_conv typed_conv : Z) (o : call_obs) : bool :=
  co_ok o &&
  existsb (is_exec_of named_conv) (co_events o) &&
  negb (existsb (is_exec_of typed_conv) (co_events o)).

(* several named parameters of the same type, all produced by ONE type-only
   converter from same-typed named inputs: parameter n_i must be converted
   from the input named n_i *)
Definition c07_multi_ok (f : fdecl) (b : builder) (conv : Z) (o : call_obs) : bool :=
  co_ok o &&
  match filter (is_exec_of (fn_id f)) (co_events o) with
  | [EExec _ args _ _] =>
      forallb (fun pa =>
         let '(p, a) := pa in
         match named_val b (f_name p) with
         | None => true
         | Some v =>
             existsb (fun e => match e with
                               | EExec fid [a0] outs _ =>
                                   (fid =? conv) && existsb (fun x => v_id x =? v_id a) outs && (v_id a0 =? v_id v)
                               | _ => false end) (co_events o)
         end) (combine (fn_in f) args)
  | _ => false
  end.

(* the family is recognised from the shape of the scenario *)
Definition c07_monitor (u : universe) (f : fdecl) (d opts : list arg) (ob : op_obs) : Z :=
  match fn_in f, build_args d opts with
  | p1 :: p2 :: rest, Some b =>
      (* all parameters named, one type, not supplied directly; a single type-only converter into that type *)
      let ps := p1 :: p2 :: rest in
      if forallb (fun p => negb (is_empty (f_name p)) && (f_ty p =? f_ty p1) && is_empty (f_sub p)) ps then
        match filter (fun c => match fn_in c, fn_out c with
                               | [i], [o] => is_empty (f_name i) && is_empty (f_name o) && (f_ty o =? f_ty p1)
                               | _, _ => false end) (b_convs b) with
        | [tc] => if forallb (fun p => match named_val b (f_name p) with
                                       | Some v => match fn_in tc with [i] => v_ty v =? f_ty i | _ => false end
                                       | None => false end) ps
                  then (if c07_multi_ok f b (fn_id tc) (co_of_obs ob) then 0 else 74) else 0
        | _ => 0
        end
      else 0
  | [p], Some b =>
      if is_empty (f_name p) then 0
      else
        let typed := filter (fun c => match fn_in c with [i] => is_empty (f_name i) | _ => false end) (b_convs b) in
        let named := filter (fun c => match fn_in c with [i] => Base.eqb (f_name i) (f_name p) | _ => false end) (b_convs b) in
        match typed, named with
        | [tc], [] => if c07_f1_ok (f_name p) b (fn_id tc) (co_of_obs ob) then 0 else 62
        | [tc], [nc] => if c07_f2_ok (fn_id nc) (fn_id tc) (co_of_obs ob) then 0 else 63
        | _, _ => 0
        end
  | _, _ => 0
  end.

(* ---------- C08: Redefine (strict domain) ---------- *)
Definition rfield_ty (r : rfield) : ty := match r with RNamed _ t | RTyped t => t end.
Definition rfield_name (r : rfield) : string := match r with RNamed n _ => n | RTyped _ => EmptyString end.
Definition c08_redefine_ok (u : universe) (f : fdecl) (b bo : builder) (e : obs_err) (ins : list rfield) : bool :=
  let out_rejected := match b_fout bo with
                      | Some flt => negb (forallb (fun fld => flt_okv u flt (f_name fld) (f_ty fld) (f_sub fld)) (fn_out f))
                      | None => false end in
  if out_rejected then match e with ObsFilterOut => true | _ => false end
  else
    match e with
    | ObsOk =>
        (* every input passes the filter, none is keyed like a supplied value *)
        forallb (fun r => match b_fin b with Some flt => flt_okv u flt (rfield_name r) (rfield_ty r) EmptyString | None => true end) ins &&
        forallb (fun r => match r with
                          | RNamed n t => negb (mem (KVal n t EmptyString) (input_vertices b))
                          | RTyped t => negb (mem (KOut t EmptyString) (input_vertices b))
                          end) ins
    | ObsFilterOut => false
    | _ =>
        (* must succeed whenever every parameter of the target is itself permitted *)
        negb (forallb (fun fld => match b_fin b with Some flt => flt_okv u flt (f_name fld) (f_ty fld) (f_sub fld) | None => true end) (fn_in f))
    end.
Definition c08_callredef_ok (e : obs_err) : bool :=
  match e with ObsUnsat _ _ _ _ _ | ObsMissing | ObsBuild | ObsOtherErr => false | _ => true end.

(* the values the redefined function's call hands to user functions are the
   supplied ones or results of earlier executions (C01 on the inner call:
   the original Call with the Redefine options plus the given values) *)
Definition c08_provenance (u : universe) (prev : list (op * op_obs)) (earlier : list event) (o : op) (ob : op_obs) : Z :=
  match o, oo_obs ob with
  | OpCallRedef ref, ObsCallRedef _ given _ _ _ =>
      match nth_error prev ref with
      | Some (OpRedefine f d opts, _) =>
          (* the wrapper forwards every value under the DECLARED type of its input (D20) *)
          match build_args d (redefined_opts opts (map (fun rv => (fst rv, mkV (v_id (snd rv)) (rfield_ty (fst rv)))) given)) with
          | Some b => if c01_ok u f b earlier (co_of_obs ob) then 0 else 75
          | None => 0
          end
      | _ => 0
      end
  | _, _ => 0
  end.

Definition c08_monitor (u : universe) (prev : list (op * op_obs)) (o : op) (ob : op_obs) : Z :=
  match o, oo_obs ob with
  | OpRedefine f d opts, ObsRedefine e ins =>
      match build_args d opts, build_args [] opts with
      | Some b, Some bo => if c08_redefine_ok u f b bo e ins then 0 else 64
      | _, _ => 0
      end
  | OpCallRedef _, ObsCallRedef _ _ e _ _ => if c08_callredef_ok e then 0 else 65
  | _, ObsPanic _ => 61
  | _, _ => 0
  end.

(* ---------- C09: Redefine runs no user code ---------- *)
Definition no_exec (evs : list event) : bool :=
  forallb (fun e => match e with EExec _ _ _ _ => false | EGen _ _ => true end) evs.
Definition c09_monitor (o : op) (ob : op_obs) : Z :=
  match o with
  | OpRedefine _ _ _ => if no_exec (oo_events ob) then 0 else 66
  | _ => 0
  end.

(* ---------- C11: run-once functions execute at most once per history ---------- *)
Definition once_ids_of (opts : list arg) : list Z :=
  flat_map (fun a => match a with
                     | AConvFunc fs => flat_map (fun o => match o with Some f => if fn_once f then [fn_id f] else [] | None => [] end) fs
                     | _ => [] end) opts.
Definition op_once_ids (o : op) : list Z :=
  match o with
  | OpCall f d opts => (if fn_once f then [fn_id f] else []) ++ once_ids_of (d ++ opts)
  | OpRedefine _ d opts => once_ids_of (d ++ opts)
  | OpConvert _ opts => once_ids_of opts
  | _ => []
  end.
(* every declaration (id, run-once?) a history mentions: targets and all converter lists *)
Definition arg_decls (opts : list arg) : list (Z * bool) :=
  flat_map (fun a => match a with
                     | AConvFunc fs | AConv fs => flat_map (fun o => match o with Some f => [(fn_id f, fn_once f)] | None => [] end) fs
                     | _ => [] end) opts.
Definition op_decls (o : op) : list (Z * bool) :=
  match o with
  | OpCall f d opts | OpRedefine f d opts => (fn_id f, fn_once f) :: arg_decls (d ++ opts)
  | OpConvert _ opts => arg_decls opts
  | _ => []
  end.
Definition c11_monitor (ops : list (op * op_obs)) : Z :=
  let decls := flat_map (fun oo => op_decls (fst oo)) ops in
  (* as in theorem C11_history: the id denotes a run-once function wherever it occurs
     (Converter(fn) wraps fn anew, not run-once, under the same id) *)
  let ids := filter (fun i => forallb (fun d => if fst d =? i then snd d else true) decls)
                    (dedup (flat_map (fun oo => op_once_ids (fst oo)) ops)) in
  let evs := flat_map (fun oo => oo_events (snd oo)) ops in
  if forallb (fun i => Nat.leb (List.length (filter (is_exec_of i) evs)) 1) ids then 0 else 68.

(* ---------- C17 on resolver histories: the raw outputs of a successful call are
   what the target's body returned (in this operation, or earlier when the
   target is a memoized run-once function) ---------- *)
Definition raw_of_event (f : fdecl) (outs : list value) : Z * list (list Z) :=
  match fn_out f with
  | [] => (0, [])
  | _ => match fn_out_form f with
         | FPos => (Z.of_nat (List.length outs), map (fun v => [v_id v]) outs)
         | FStruct => (1, [map v_id outs])
         | FPtr => (1, [(-77) :: map v_id outs])
         end
  end.
Definition last_exec_outs (fid : Z) (evs : list event) : option (list value) :=
  fold_left (fun acc e => match e with EExec g _ outs None => if g =? fid then Some outs else acc | _ => acc end) evs None.
Definition c17_monitor (all : list (op * op_obs)) (earlier : list event) (o : op) (ob : op_obs) : Z :=
  match o, oo_obs ob with
  | OpCall f _ _, ObsCall ObsOk len outs =>
      match last_exec_outs (fn_id f) (earlier ++ oo_events ob) with
      | Some vs => let (l, os) := raw_of_event f vs in
                   if (l =? len) && Base.eqb os outs then 0 else 70
      | None => 72     (* a successful call whose target never ran (now or, memoized, earlier) *)
      end
  (* a function returned by Redefine hands back the ORIGINAL function's raw results *)
  | OpCallRedef ref, ObsCallRedef _ _ ObsOk len outs =>
      match nth_error all ref with
      | Some (OpRedefine f _ _, _) =>
          match last_exec_outs (fn_id f) (earlier ++ oo_events ob) with
          | Some vs => let (l, os) := raw_of_event f vs in
                       if (l =? len) && Base.eqb os outs then 0 else 70
          | None => 72
          end
      | _ => 0
      end
  (* when resolution itself fails the result has length 0 (and an error) *)
  | OpCall _ _ _, ObsCall (ObsUnsat _ _ _ _ _) len _
  | OpCall _ _ _, ObsCall ObsMissing len _
  | OpCall _ _ _, ObsCall ObsBuild len _ => if len =? 0 then 0 else 71
  | _, _ => 0
  end.

(* ---------- per-history monitors ---------- *)
Fixpoint monitor2_ops (which : Z) (u : universe) (all : list (op * op_obs)) (earlier : list event)
         (ops : list (op * op_obs)) (i : Z) : Z :=
  match ops with
  | [] => 0
  | (o, ob) :: rest =>
      let c := match which with
               | 7 => match o with OpCall f d opts => c07_monitor u f d opts ob | _ => 0 end
               | 8 => c08_monitor u all o ob
                      (* c08_provenance is NOT applied: it raised alarms on the unchanged tree in the
                         thorough tier (interface-typed declared inputs, values forwarded under their
                         declared types); the correspondence on callredef operations decides *)
               | 9 => c09_monitor o ob
               | 17 => c17_monitor all earlier o ob
               | 4 => match o with
                      | OpCall f _ _ => if c04_ok f (co_of_obs ob) then 0 else 59
                      | OpCallRedef ref =>
                          match nth_error all ref with
                          | Some (OpRedefine f _ _, _) => if c04_ok f (co_of_obs ob) then 0 else 59
                          | _ => 0
                          end
                      | _ => 0
                      end
               | _ => 0
               end in
      if c =? 0 then monitor2_ops which u all (earlier ++ oo_events ob) rest (i + 1) else 100 * (i + 1) + c
  end.

Definition check_prop2 (m : cmp_mode) (which : Z) (s : scn) : Z :=
  let mc := if which =? 11 then c11_monitor (sc_ops s) else monitor2_ops which (sc_u s) (sc_ops s) [] (sc_ops s) 0 in
  if negb (mc =? 0) then mc else check_scn m s.
Definition run_prop2 (m : cmp_mode) (which : Z) := run_checks_r (check_prop2 m which).

(* scenarios that carry the verdict of a twin run made by the harness
   (C09: the same history with the Redefine operations erased must give the
   same observations for every Call; C10: Call on a hand-written identity
   function must agree with Convert) *)
Definition check_twin (m : cmp_mode) (which : Z) (c : scn * bool) : Z :=
  if negb (snd c) then 69 else check_prop2 m which (fst c).
Definition run_twin (m : cmp_mode) (which : Z) := run_checks_r (check_twin m which).

(* ResolverStatements5.v -- C07, family F3: SEVERAL named parameters of one
   type, all to be produced by ONE type-only converter from same-typed named
   inputs.  Statement only; proved in proofs/C07F3*.v. *)
From ArgMapper Require Import Base Graph GraphAlg Types Args Resolver ResolverSpec CheckResolver Monitors Monitors2
     ResolverStatements ResolverStatements2.
Set Implicit Arguments.
Local Open Scope Z_scope.

(* Family F3(m, k): the target has m >= 2 named parameters (n_1, U) .. (n_m, U)
   (pairwise distinct lower-case names, no subtypes, any result list, not
   run-once); a type-only converter conv : T -> U with one positional or
   struct-form type-only parameter and ONE type-only result; the options
   supply k >= m named values of type T with pairwise distinct names, among
   them every n_i, in any order, and the converter; T <> U, both concrete. *)
Record f3_family := mkF3 {
  f3_u : universe; f3_T : ty; f3_U : ty;
  f3_target : fdecl; f3_conv : fdecl;
  f3_named : list (string * value) }.

Definition f3_opts (F : f3_family) : list arg :=
  map (fun nv => ANamed (fst nv) (Some (snd nv))) (f3_named F) ++ [AConvFunc [Some (f3_conv F)]].

Definition f3_ok (F : f3_family) : bool :=
  negb (f3_T F =? f3_U F) && negb (is_iface (f3_u F) (f3_T F)) && negb (is_iface (f3_u F) (f3_U F)) &&
  (* the target: at least two named parameters of type U *)
  Nat.leb 2 (List.length (fn_in (f3_target F))) &&
  forallb (fun p => negb (is_empty (f_name p)) && Base.eqb (f_name p) (lower (f_name p)) &&
                    (f_ty p =? f3_U F) && is_empty (f_sub p)) (fn_in (f3_target F)) &&
  nodupb (map (fun p => f_name p) (fn_in (f3_target F))) &&
  negb (fn_once (f3_target F)) &&
  (* the converter: one type-only parameter T, one type-only result U *)
  Base.eqb (map (fun f => (f_name f, f_ty f, f_sub f)) (fn_in (f3_conv F))) [(EmptyString, f3_T F, EmptyString)] &&
  Base.eqb (map (fun f => (f_name f, f_ty f, f_sub f)) (fn_out (f3_conv F))) [(EmptyString, f3_U F, EmptyString)] &&
  negb (fn_type (f3_conv F) =? fn_type (f3_target F)) && negb (fn_id (f3_conv F) =? fn_id (f3_target F)) &&
  (0 <? fn_id (f3_conv F)) && negb (fn_once (f3_conv F)) &&
  wf_fn (f3_target F) && wf_fn (f3_conv F) &&
  (* the supplied values: distinct lower-case names, type T, distinct ids in (0,1000); every parameter's name among them *)
  nodupb (map fst (f3_named F)) &&
  forallb (fun p => memb (f_name p) (map fst (f3_named F))) (fn_in (f3_target F)) &&
  forallb (fun nv => negb (is_empty (fst nv)) && Base.eqb (fst nv) (lower (fst nv)) &&
                     (v_ty (snd nv) =? f3_T F) && (0 <? v_id (snd nv)) && (v_id (snd nv) <? 1000)) (f3_named F) &&
  nodupb (map (fun nv => v_id (snd nv)) (f3_named F)).

(* For EVERY order tape and every behaviour of the user functions: whenever
   the target executes, its i-th argument is a result of an execution of the
   converter whose argument was exactly the supplied value named like the
   i-th parameter; and the converter never receives a value named unlike
   every parameter. *)
Definition C07_f3_statement : Prop :=
  forall (F : f3_family) bh t r,
    f3_ok F = true ->
    call (f3_u F) bh (f3_target F) [] (f3_opts F) world0 t = Ok r ->
    (forall args outs e, In (EExec (fn_id (f3_target F)) args outs e) (run_trace r) ->
       Forall2 (fun p a => exists vn couts,
                   lookup (f_name p) (f3_named F) = Some vn /\
                   In (EExec (fn_id (f3_conv F)) [mkV (v_id vn) (f3_T F)] couts None) (run_trace r) /\
                   In a couts)
               (fn_in (f3_target F)) args) /\
    (forall args outs e, In (EExec (fn_id (f3_conv F)) args outs e) (run_trace r) ->
       exists p vn, In p (fn_in (f3_target F)) /\ lookup (f_name p) (f3_named F) = Some vn /\
                    args = [mkV (v_id vn) (f3_T F)]) /\
    (* without failing functions the call succeeds *)
    (no_failures bh -> co_ok (co_of_run r) = true).

(* Args.v -- model of args.go: option processing (newArgBuilder and the
   Arg constructors) and Func.argBuilder (defaults first).  Model file. *)
From ArgMapper Require Import Base Types.
Set Implicit Arguments.
Local Open Scope Z_scope.
Local Open Scope list_scope.

Record builder := mkB {
  b_named : amap string value;
  b_namedsub : amap (string * string) value;
  b_typed : amap ty value;
  b_typedsub : amap (ty * string) value;
  b_convs : list fdecl;
  b_gens : list gen;
  b_fin : option flt;
  b_fout : option flt;
  b_err : bool                (* some option returned an error (multierror) *)
}.
Definition b0 : builder := mkB [] [] [] [] [] [] None None false.

Definition set_typed (b : builder) (v : option value) : builder :=
  match v with
  | None => b                                  (* nil values are ignored *)
  | Some x => mkB (b_named b) (b_namedsub b) (insert (v_ty x) x (b_typed b)) (b_typedsub b)
                  (b_convs b) (b_gens b) (b_fin b) (b_fout b) (b_err b)
  end.
Definition set_typedsub (b : builder) (v : option value) (st : string) : builder :=
  if String.eqb st EmptyString then set_typed b v
  else match v with
       | None => b
       | Some x => mkB (b_named b) (b_namedsub b) (b_typed b) (insert (v_ty x, st) x (b_typedsub b))
                       (b_convs b) (b_gens b) (b_fin b) (b_fout b) (b_err b)
       end.
Definition set_named (b : builder) (n : string) (v : option value) : builder :=
  if String.eqb n EmptyString then set_typed b v
  else match v with
       | None => b
       | Some x => mkB (insert (lower n) x (b_named b)) (b_namedsub b) (b_typed b) (b_typedsub b)
                       (b_convs b) (b_gens b) (b_fin b) (b_fout b) (b_err b)
       end.
Definition set_namedsub (b : builder) (n : string) (v : option value) (st : string) : builder :=
  if String.eqb n EmptyString then set_typedsub b v st
  else if String.eqb st EmptyString then set_named b n v
  else match v with
       | None => b
       | Some x => mkB (b_named b) (insert (lower n, st) x (b_namedsub b)) (b_typed b) (b_typedsub b)
                       (b_convs b) (b_gens b) (b_fin b) (b_fout b) (b_err b)
       end.

(* Converter(fs...): NewFunc on each; the first failure returns the error
   and drops the rest of THIS option *)
Fixpoint add_convs_raw (b : builder) (fs : list (option fdecl)) : builder :=
  match fs with
  | [] => b
  | None :: _ => mkB (b_named b) (b_namedsub b) (b_typed b) (b_typedsub b) (b_convs b) (b_gens b)
                     (b_fin b) (b_fout b) true
  | Some f :: fs => add_convs_raw (mkB (b_named b) (b_namedsub b) (b_typed b) (b_typedsub b)
                                       (b_convs b ++ [f]) (b_gens b) (b_fin b) (b_fout b) (b_err b)) fs
  end.
(* ConverterFunc(fs...): nil entries are skipped *)
Definition add_convs (b : builder) (fs : list (option fdecl)) : builder :=
  mkB (b_named b) (b_namedsub b) (b_typed b) (b_typedsub b)
      (b_convs b ++ flat_map (fun o => match o with Some f => [f] | None => [] end) fs)
      (b_gens b) (b_fin b) (b_fout b) (b_err b).

Definition apply_arg (b : builder) (a : arg) : builder :=
  match a with
  | ANamed n v => set_named b n v
  | ANamedSub n v st => set_namedsub b n v st
  | ATyped vs => fold_left set_typed vs b
  | ATypedSub v st => set_typedsub b v st
  | AConv fs => add_convs_raw b fs
  | AConvFunc fs => add_convs b fs
  | AConvGen gs => mkB (b_named b) (b_namedsub b) (b_typed b) (b_typedsub b) (b_convs b)
                       (b_gens b ++ gs) (b_fin b) (b_fout b) (b_err b)
  | AFilterIn f => mkB (b_named b) (b_namedsub b) (b_typed b) (b_typedsub b) (b_convs b)
                       (b_gens b) (Some f) (b_fout b) (b_err b)
  | AFilterOut f => mkB (b_named b) (b_namedsub b) (b_typed b) (b_typedsub b) (b_convs b)
                        (b_gens b) (b_fin b) (Some f) (b_err b)
  | ANil => b      (* handled by [build_args]: a nil option aborts *)
  | AOther => b
  end.

Definition is_nil_arg (a : arg) : bool := match a with ANil => true | _ => false end.

(* newArgBuilder: None = an error result (a nil option, or an option that
   reported an error) *)
Fixpoint build_from (b : builder) (opts : list arg) : option builder :=
  match opts with
  | [] => if b_err b then None else Some b
  | a :: opts => if is_nil_arg a then None else build_from (apply_arg b a) opts
  end.
Definition build_args (defaults opts : list arg) : option builder := build_from b0 (defaults ++ opts).

(* the direct inputs as graph vertices with their values (argBuilder.graph) *)
Definition input_vertices (b : builder) : list (vkey * value) :=
  map (fun kv => (KVal (fst kv) (v_ty (snd kv)) EmptyString, snd kv)) (b_named b) ++
  map (fun kv => (KVal (fst (fst kv)) (v_ty (snd kv)) (snd (fst kv)), snd kv)) (b_namedsub b) ++
  map (fun kv => (KOut (fst kv) EmptyString, snd kv)) (b_typed b) ++
  map (fun kv => (KOut (fst (fst kv)) (snd (fst kv)), snd kv)) (b_typedsub b).

(* ResolverStatements2.v -- C07 (name affinity, families F1/F2) and C08
   (Redefine) as propositions over the model. *)
From ArgMapper Require Import Base Graph GraphAlg Types Args Resolver ResolverSpec CheckResolver Monitors Monitors2 ResolverStatements.
Set Implicit Arguments.
Local Open Scope Z_scope.

(* ================= C07 =================
   Family F1(k): the target has ONE named parameter (n, U) (any result list);
   a type-only converter conv : T -> U (positional or struct form, type-only
   or named-n result); the options supply k >= 1 named values of type T with
   pairwise distinct names, one of them named n, in any order, and the
   converter; T <> U, both concrete.  For EVERY order tape the converter runs
   and every execution of it receives exactly the value named n. *)
Record f1_family := mkF1 {
  f1_u : universe; f1_n : string; f1_T : ty; f1_U : ty;
  f1_target : fdecl; f1_conv : fdecl;
  f1_named : list (string * value) }.

Definition f1_opts (F : f1_family) : list arg :=
  map (fun nv => ANamed (fst nv) (Some (snd nv))) (f1_named F) ++ [AConvFunc [Some (f1_conv F)]].

Definition f1_ok (F : f1_family) : bool :=
  negb (f1_T F =? f1_U F) && negb (is_iface (f1_u F) (f1_T F)) && negb (is_iface (f1_u F) (f1_U F)) &&
  negb (is_empty (f1_n F)) && Base.eqb (f1_n F) (lower (f1_n F)) &&
  (* the target: one named parameter (n, U), not run-once *)
  Base.eqb (map (fun f => (f_name f, f_ty f, f_sub f)) (fn_in (f1_target F))) [(f1_n F, f1_U F, EmptyString)] &&
  negb (fn_once (f1_target F)) &&
  (* the converter: one type-only parameter T, one result of type U (type-only or named n) *)
  Base.eqb (map (fun f => (f_name f, f_ty f, f_sub f)) (fn_in (f1_conv F))) [(EmptyString, f1_T F, EmptyString)] &&
  (match fn_out (f1_conv F) with
   | [o] => (f_ty o =? f1_U F) && is_empty (f_sub o) && (is_empty (f_name o) || Base.eqb (f_name o) (f1_n F))
   | _ => false end) &&
  negb (fn_type (f1_conv F) =? fn_type (f1_target F)) && negb (fn_id (f1_conv F) =? fn_id (f1_target F)) &&
  (0 <? fn_id (f1_conv F)) && negb (fn_once (f1_conv F)) &&
  wf_fn (f1_target F) && wf_fn (f1_conv F) &&
  (* the supplied values: distinct lower-case names, type T, distinct ids in (0,1000), one named n *)
  nodupb (map fst (f1_named F)) && memb (f1_n F) (map fst (f1_named F)) &&
  forallb (fun nv => negb (is_empty (fst nv)) && Base.eqb (fst nv) (lower (fst nv)) &&
                     (v_ty (snd nv) =? f1_T F) && (0 <? v_id (snd nv)) && (v_id (snd nv) <? 1000)) (f1_named F) &&
  nodupb (map (fun nv => v_id (snd nv)) (f1_named F)).

Definition C07_f1_statement : Prop :=
  forall (F : f1_family) bh t r vn,
    f1_ok F = true -> lookup (f1_n F) (f1_named F) = Some vn ->
    call (f1_u F) bh (f1_target F) [] (f1_opts F) world0 t = Ok r ->
    (* the converter ran ... *)
    existsb (is_exec_of (fn_id (f1_conv F))) (run_trace r) = true /\
    (* ... and every execution of it received the value named n *)
    forall args outs e, In (EExec (fn_id (f1_conv F)) args outs e) (run_trace r) ->
                        args = [mkV (v_id vn) (f1_T F)].

(* Family F2: additionally a converter taking (n, T) BY NAME with the same
   result; it is the one executed, the type-only converter is not. *)
Definition f2_opts (F : f1_family) (nc : fdecl) (first : bool) : list arg :=
  map (fun nv => ANamed (fst nv) (Some (snd nv))) (f1_named F) ++
  (if first then [AConvFunc [Some nc; Some (f1_conv F)]] else [AConvFunc [Some (f1_conv F); Some nc]]).
Definition f2_ok (F : f1_family) (nc : fdecl) : bool :=
  f1_ok F &&
  Base.eqb (map (fun f => (f_name f, f_ty f, f_sub f)) (fn_in nc)) [(f1_n F, f1_T F, EmptyString)] &&
  Base.eqb (map (fun f => (f_name f, f_ty f, f_sub f)) (fn_out nc))
           (map (fun f => (f_name f, f_ty f, f_sub f)) (fn_out (f1_conv F))) &&
  negb (fn_type nc =? fn_type (f1_target F)) && negb (fn_type nc =? fn_type (f1_conv F)) &&
  negb (fn_id nc =? fn_id (f1_target F)) && negb (fn_id nc =? fn_id (f1_conv F)) && (0 <? fn_id nc) &&
  negb (fn_once nc) && wf_fn nc && negb (match fn_in_form nc with FPos => true | _ => false end).
Definition C07_f2_statement : Prop :=
  forall (F : f1_family) nc first bh t r,
    f2_ok F nc = true ->
    call (f1_u F) bh (f1_target F) [] (f2_opts F nc first) world0 t = Ok r ->
    existsb (is_exec_of (fn_id nc)) (run_trace r) = true /\
    existsb (is_exec_of (fn_id (f1_conv F))) (run_trace r) = false.

(* ================= C08 =================
   Domain: every converter has at most one input, no subtypes anywhere, each
   name denotes a single type, concrete types. *)
Definition c08_domain (u : universe) (f : fdecl) (b : builder) : bool :=
  let fs := known_funcs f b in
  forallb (fun c => Nat.leb (List.length (fn_in c)) 1) (b_convs b ++ gen_funcs (b_gens b)) &&
  forallb (fun g => forallb (fun fld => is_empty (f_sub fld)) (fn_in g ++ fn_out g)) fs &&
  forallb (fun kv => match fst kv with KVal _ _ s | KOut _ s => is_empty s | _ => true end) (input_vertices b) &&
  (* each name denotes one type *)
  (let named := flat_map (fun g => flat_map (fun fld => if is_empty (f_name fld) then [] else [(f_name fld, f_ty fld)]) (fn_in g ++ fn_out g)) fs ++
                flat_map (fun kv => match fst kv with KVal n t _ => [(n, t)] | _ => [] end) (input_vertices b) in
   forallb (fun p => forallb (fun q => if Base.eqb (fst p) (fst q) then snd p =? snd q else true) named) named).

Definition C08_statement : Prop :=
  forall u f d opts b bo w t x r,
    build_args d opts = Some b -> build_args [] opts = Some bo ->
    wf_call u f b = true -> c08_domain u f b = true ->
    redefine u f d opts w t = Ok (x, r) ->
    (* an output rejected by the output filter fails Redefine, and only that gives this error *)
    (x = inr XFilterOut <->
     match b_fout bo with Some flt => forallb (fun fld => flt_okv u flt (f_name fld) (f_ty fld) (f_sub fld)) (fn_out f) = false | None => False end) /\
    (* when it succeeds: every input passes the input filter and none is keyed like a supplied value *)
    (forall ins, x = inl ins ->
       forall i, In i ins ->
         match b_fin b with Some flt => flt_okv u flt (rfield_name i) (rfield_ty i) EmptyString = true | None => True end /\
         match i with
         | RNamed n ty => mem (KVal n ty EmptyString) (input_vertices b) = false
         | RTyped ty => mem (KOut ty EmptyString) (input_vertices b) = false
         end).

(* Conc.v -- interleaving model of the run-once protocol of callDirect
   (after the D12 repair): each thread that needs the function executes
     lock; if cache = nil then (run body; cache := result); read cache; unlock
   as atomic steps under an arbitrary scheduler.  Also the flag checkers for
   the concurrency streams of the harness.  The Go memory model itself is
   NOT modelled: steps are atomic and sequentially consistent. *)
From ArgMapper Require Import Base.
Set Implicit Arguments.
Local Open Scope Z_scope.

Inductive pc := PStart | PLocked | PRan | PDone (got : Z).

Record cstate := mkC {
  c_lock : option nat;        (* thread holding the lock *)
  c_cache : option Z;         (* memoized result *)
  c_pcs : list pc;            (* per thread *)
  c_runs : Z;                 (* how often the body ran *)
  c_next : Z }.               (* the value the next execution of the body returns *)

Definition set_pc (s : cstate) (i : nat) (p : pc) : cstate :=
  mkC (c_lock s) (c_cache s) ((fix upd (l : list pc) (n : nat) := match l, n with
                                | [], _ => []
                                | _ :: l, O => p :: l
                                | x :: l, S n => x :: upd l n end) (c_pcs s) i) (c_runs s) (c_next s).

(* one atomic step of thread i; None = the thread cannot move (blocked or finished) *)
Definition cstep (s : cstate) (i : nat) : option cstate :=
  match nth_error (c_pcs s) i with
  | Some PStart =>
      match c_lock s with
      | None => Some (set_pc (mkC (Some i) (c_cache s) (c_pcs s) (c_runs s) (c_next s)) i PLocked)
      | Some _ => None                      (* blocked on the lock *)
      end
  | Some PLocked =>
      match c_cache s with
      | Some _ => Some (set_pc s i PRan)    (* cached: nothing runs *)
      | None =>                             (* run the body and store its result *)
          Some (set_pc (mkC (c_lock s) (Some (c_next s)) (c_pcs s) (c_runs s + 1) (c_next s + 1)) i PRan)
      end
  | Some PRan =>
      match c_cache s with
      | Some v => Some (set_pc (mkC None (c_cache s) (c_pcs s) (c_runs s) (c_next s)) i (PDone v))
      | None => None
      end
  | _ => None
  end.

Fixpoint crun (s : cstate) (sched : list nat) : cstate :=
  match sched with
  | [] => s
  | i :: rest => match cstep s i with Some s' => crun s' rest | None => crun s rest end
  end.

Definition cinit (k : nat) : cstate := mkC None None (repeat PStart k) 0 1.

(* the same protocol WITHOUT the lock (the code before the D12 repair):
   check, run, store as separate unguarded steps *)
Definition ustep (s : cstate) (i : nat) : option cstate :=
  match nth_error (c_pcs s) i with
  | Some PStart =>                          (* check the cache *)
      match c_cache s with
      | Some v => Some (set_pc s i (PDone v))
      | None => Some (set_pc s i PLocked)   (* saw nil: will run *)
      end
  | Some PLocked =>                         (* run the body, then store *)
      Some (set_pc (mkC None (Some (c_next s)) (c_pcs s) (c_runs s + 1) (c_next s + 1)) i (PDone (c_next s)))
  | _ => None
  end.
Fixpoint urun (s : cstate) (sched : list nat) : cstate :=
  match sched with
  | [] => s
  | i :: rest => match ustep s i with Some s' => urun s' rest | None => urun s rest end
  end.

(* ---------- flag checkers of the concurrency streams ---------- *)
Definition run_checks_c (f : Z * bool * Z -> Z) (cases : list (Z * (Z * bool * Z))) : list (Z * Z) :=
  filter (fun r => negb (snd r =? 0)) (map (fun ic => (fst ic, f (snd ic))) cases).
(* (body executions, all results equal, goroutines) *)
Definition check_conconce_all := run_checks_c (fun c => let '(n, same, k) := c in if negb (n =? 1) then 60 else if negb same then 62 else 0).
(* (_, every concurrent outcome is a sequential outcome, goroutines) *)
Definition check_concshare_all := run_checks_c (fun c => let '(_, ok, k) := c in if ok then 0 else 60).

package main

import (
	"fmt"
	"reflect"
	"strings"
	"sync"
	"sync/atomic"
	"time"

	am "github.com/hashicorp/go-argmapper"
)

// Concurrency streams (built with -race, native map order): they produce
// flags only; a data race makes the race detector abort the process, which
// the check reports as a crash of the implementation.

// stream conconce (C11, concurrent half): k goroutines need the same
// run-once function for the first time; its body is held open until all of
// them had the chance to enter.
func genConcOnce(r *rng, idx int, st stats) caseOut {
	k := 2 + r.intn(7)
	depth := r.intn(3) // position of the once function in the chain
	asTarget := r.chance(15)
	var count int64
	gate := make(chan struct{})
	mkOnce := func(in, out int) *am.Func {
		var ft reflect.Type
		if in < 0 {
			ft = reflect.FuncOf(nil, []reflect.Type{tyOf[out]}, false)
		} else {
			ft = reflect.FuncOf([]reflect.Type{tyOf[in]}, []reflect.Type{tyOf[out]}, false)
		}
		fn := reflect.MakeFunc(ft, func(args []reflect.Value) []reflect.Value {
			n := atomic.AddInt64(&count, 1)
			<-gate
			return []reflect.Value{mkVal(out, int(1000+n))}
		})
		f, err := am.NewFunc(fn.Interface(), am.FuncOnce())
		if err != nil {
			panic(err)
		}
		return f
	}
	plain := func(in, out int) *am.Func {
		ft := reflect.FuncOf([]reflect.Type{tyOf[in]}, []reflect.Type{tyOf[out]}, false)
		fn := reflect.MakeFunc(ft, func(args []reflect.Value) []reflect.Value {
			return []reflect.Value{mkVal(out, serialOf(args[0]))}
		})
		f, err := am.NewFunc(fn.Interface())
		if err != nil {
			panic(err)
		}
		return f
	}
	// chain: T0 -> T1 -> T2 -> T3 ; target takes T3 (or is the once function itself)
	var opts []am.Arg
	opts = append(opts, nullLog, am.Typed(T0(5)))
	fns := make([]*am.Func, 3)
	for i := 0; i < 3; i++ {
		if i == depth && !asTarget {
			if i == 0 && r.chance(40) {
				fns[i] = mkOnce(-1, 1) // a run-once provider
			} else {
				fns[i] = mkOnce(i, i+1)
			}
		} else {
			fns[i] = plain(i, i+1)
		}
	}
	opts = append(opts, am.ConverterFunc(fns...))
	var target *am.Func
	if asTarget {
		target = mkOnce(3, 4)
	} else {
		target = plain(3, 4)
	}
	results := make([]int, k)
	errs := make([]error, k)
	var wg sync.WaitGroup
	for g := 0; g < k; g++ {
		wg.Add(1)
		go func(g int) {
			defer wg.Done()
			res := target.Call(opts...)
			errs[g] = res.Err()
			if res.Err() == nil && res.Len() == 1 {
				results[g] = serialOf(reflect.ValueOf(res.Out(0)))
			}
		}(g)
	}
	time.Sleep(time.Duration(15+r.intn(20)) * time.Millisecond)
	close(gate)
	wg.Wait()
	same := true
	for g := 0; g < k; g++ {
		if errs[g] != nil || results[g] != results[0] {
			same = false
		}
	}
	st.inc(fmt.Sprintf("conconce.k=%d", k))
	st.inc(fmt.Sprintf("conconce.depth=%d target=%v", depth, asTarget))
	term := fmt.Sprintf("(%s, %s, %s)", z(int(count)), boolc(same), z(k))
	text := fmt.Sprintf("conconce k=%d depth=%d asTarget=%v", k, depth, asTarget)
	return caseOut{Term: term, Text: text, Hash: fmt.Sprintf("%s #%d", text, idx), Trivial: false, Category: "conconce"}
}

var classifyMu sync.Mutex

// stream concshare (C12): goroutines share the target, the converter Funcs
// and the SAME option values; each outcome must be one a sequential run of
// the same call can produce.  Variants: (0) identical calls, some goroutines
// Redefine with the same shared options meanwhile (C09: planning disturbs
// nobody); (1) every goroutine supplies its OWN value for one of the inputs
// and must get the outcome of its own values; (2) the shared target is a
// function returned by Redefine, every goroutine passes its own value for
// one declared input.
func genConcShare(r *rng, idx int, st stats) caseOut {
	c := &gctx{r: r, sc: &Scenario{}, nextFid: 1, serial: 10, st: st, noExtra: true}
	genCallScenario(c, []int{0, 0, 1}[r.intn(3)])
	for _, d := range c.sc.Funcs {
		d.Once = false // run-once functions are the subject of C11
	}
	c.sc.Beh = nil
	rt := &runtimeT{sc: c.sc, errs: map[int]error{}, ftypes: map[reflect.Type]int{}}
	for _, d := range c.sc.Funcs {
		if err := rt.materialiseConc(d); err != nil {
			panic(err)
		}
	}
	op := c.sc.Ops[0]
	d := c.sc.Funcs[op.Target]
	f := d.fn
	if len(op.Defaults) > 0 {
		// defaults built with spare capacity, as user code using append would
		defs := make([]am.Arg, 0, len(op.Defaults)+8)
		defs = append(defs, rt.goOpts(op.Defaults)...)
		var err error
		f, err = am.NewFunc(d.raw, defs...)
		if err != nil {
			panic(err)
		}
	}
	sig := func(res am.Result) string {
		e := res.Err()
		if e == nil {
			var outs []string
			for i := 0; i < res.Len(); i++ {
				outs = append(outs, rawOutTerm(reflect.ValueOf(res.Out(i))))
			}
			return "ok:" + strings.Join(outs, ",")
		}
		classifyMu.Lock() // the classifier caches function types: not goroutine-safe
		cl := rt.classify(e, false)
		classifyMu.Unlock()
		if strings.HasPrefix(cl, "(ObsUnsat") {
			return "unsat"
		}
		return cl
	}
	variant := []int{0, 1, 2, 2}[r.intn(4)]
	// the option whose value differs per goroutine (variants 1 and 2)
	own := -1
	for i, o := range op.Opts {
		if (o.Kind == "named" || o.Kind == "typed" || o.Kind == "namedsub" || o.Kind == "typedsub") && len(o.Vals) == 1 && o.Vals[0] != nil {
			own = i
			break
		}
	}
	if own < 0 {
		variant = 0
	}
	optsFor := func(g int) []Opt {
		if variant == 0 {
			return op.Opts
		}
		os := append([]Opt(nil), op.Opts...)
		o := os[own]
		o.Vals = []*Val{{Serial: 7000 + g, Ty: o.Vals[0].Ty}}
		os[own] = o
		return os
	}
	target := f
	ownArg := func(g int) []am.Arg { return nil }
	var sharedOpts []Opt
	switch variant {
	case 0:
		sharedOpts = op.Opts
	case 1:
		sharedOpts = nil
	case 2:
		// Redefine without one of the supplied values: it becomes a declared input
		var nf *am.Func
		for i, o := range op.Opts {
			if !((o.Kind == "named" || o.Kind == "typed" || o.Kind == "namedsub" || o.Kind == "typedsub") && len(o.Vals) == 1 && o.Vals[0] != nil) {
				continue
			}
			rest := append(append([]Opt(nil), op.Opts[:i]...), op.Opts[i+1:]...)
			g, err := f.Redefine(append([]am.Arg{nullLog}, rt.goOpts(rest)...)...)
			if err == nil && len(g.Input().Values()) > 0 {
				nf = g
				break
			}
		}
		if nf == nil {
			variant = 1
			break
		}
		target = nf
		ownArg = func(g int) []am.Arg {
			var as []am.Arg
			for i, v := range nf.Input().Values() {
				tid := tidOfType[v.Type]
				if cc, ok := carrier[tid]; ok {
					tid = cc
				}
				x := mkVal(tid, 7000+10*g+i).Interface()
				if v.Name != "" && tidOfType[v.Type] == tid {
					as = append(as, am.Named(v.Name, x))
				} else {
					as = append(as, am.Typed(x))
				}
			}
			return as
		}
	}
	argsFor := func(g int) []am.Arg {
		switch variant {
		case 0:
			return nil // the shared slice is used
		case 1:
			return append([]am.Arg{nullLog}, rt.goOpts(optsFor(g))...)
		default:
			return append([]am.Arg{nullLog}, ownArg(g)...)
		}
	}
	if variant == 0 && r.chance(50) {
		// the FIRST converter option is a ConverterFunc list with a nil entry (skipped by the
		// library) built on a slice with spare capacity; every goroutine adds its own converter
		// option after it
		for i, o := range sharedOpts {
			if o.Kind == "convfunc" || o.Kind == "conv" {
				if o.Kind == "convfunc" {
					cp := append([]Opt(nil), sharedOpts...)
					fns := make([]int, 0, len(o.Fns)+4)
					fns = append(append(fns, -1), o.Fns...)
					cp[i].Fns = fns
					sharedOpts = cp
				}
				break
			}
		}
	}
	shared := append([]am.Arg{nullLog}, rt.goOpts(sharedOpts)...)
	k := 2 + r.intn(7)
	// sequential outcomes, per goroutine's own arguments
	seq := make([]map[string]bool, k)
	seqRun := func(g, n int) {
		for i := 0; i < n; i++ {
			if variant == 0 {
				seq[g][sig(target.Call(shared...))] = true
			} else {
				seq[g][sig(target.Call(argsFor(g)...))] = true
			}
		}
	}
	for g := 0; g < k; g++ {
		seq[g] = map[string]bool{}
		if variant == 0 && g > 0 {
			seq[g] = seq[0]
			continue
		}
		seqRun(g, 25)
	}
	got := make([][]string, k)
	var wg sync.WaitGroup
	for g := 0; g < k; g++ {
		wg.Add(1)
		go func(g int) {
			defer wg.Done()
			for j := 0; j < 6; j++ {
				switch {
				case variant == 0 && g%3 == 2 && j%2 == 0:
					// planning with the same shared options must disturb nobody
					f.Redefine(shared...)
				case variant == 0:
					// every goroutine also passes its own extra option: shared defaults must not leak it
					extra := am.Named("zz", fmt.Sprint("goroutine ", g)) // a string: no function of the universe takes one
					mine := am.MustFunc(am.NewFunc(func(s string) string { return s + fmt.Sprint(g) })) // an own, irrelevant converter
					got[g] = append(got[g], sig(target.Call(append(shared[:len(shared):len(shared)], extra, am.ConverterFunc(mine))...)))
				default:
					got[g] = append(got[g], sig(target.Call(argsFor(g)...)))
				}
			}
		}(g)
	}
	wg.Wait()
	ok := true
	for g := range got {
		var odd []string
		for _, s := range got[g] {
			if !seq[g][s] {
				odd = append(odd, s)
			}
		}
		if len(odd) > 0 {
			// be sure it is not just a rare sequential outcome
			seqRun(g, 300)
			for _, s := range odd {
				if !seq[g][s] {
					ok = false
				}
			}
		}
	}
	st.inc(fmt.Sprintf("concshare.k=%d", k))
	st.inc(fmt.Sprintf("concshare.variant=%d", variant))
	st.inc(fmt.Sprintf("concshare.seq_outcomes=%d", len(seq[0])))
	term := fmt.Sprintf("(%s, %s, %s)", z(1), boolc(ok), z(k))
	text := fmt.Sprintf("concshare k=%d variant=%d %s", k, variant, scenarioText(c.sc))
	return caseOut{Term: term, Text: text, Hash: text, Trivial: len(c.sc.Funcs) < 2, Category: "concshare"}
}

// materialiseConc: like materialise but the bodies are goroutine-safe and
// deterministic in their arguments (outputs derive from the inputs, so that
// outcomes do not depend on a global execution counter).
func (rt *runtimeT) materialiseConc(d *FnDecl) error {
	ft := rt.funcType(d)
	body := func(args []reflect.Value) []reflect.Value {
		sum := 7 * d.ID
		fieldsIn := args
		if d.InForm != FPos && len(d.In) > 0 {
			sv := args[0]
			if d.InForm == FPtr {
				sv = sv.Elem()
			}
			fieldsIn = nil
			for i := range d.In {
				fieldsIn = append(fieldsIn, sv.Field(i+1))
			}
		}
		for i := range d.In {
			sum = sum*31 + serialOf(fieldsIn[i])
		}
		sum = sum % 100000
		vals := make([]reflect.Value, len(d.Out))
		for i, f := range d.Out {
			vals[i] = mkFieldVal(f.Ty, sum*10+i+1)
		}
		var res []reflect.Value
		if len(d.Out) > 0 {
			switch d.OutForm {
			case FPos:
				res = vals
			default:
				stt := structOf(d.Out)
				sv := reflect.New(stt)
				for i := range d.Out {
					sv.Elem().Field(i + 1).Set(vals[i])
				}
				if d.OutForm == FStruct {
					res = []reflect.Value{sv.Elem()}
				} else {
					res = []reflect.Value{sv}
				}
			}
		}
		if d.Err {
			res = append(res, reflect.Zero(errorType))
		}
		return res
	}
	d.raw = reflect.MakeFunc(ft, body).Interface()
	f, err := am.NewFunc(d.raw)
	if err != nil {
		return err
	}
	d.fn = f
	return nil
}

func init() {
	hdr := "From ArgMapper Require Import Base Conc.\n"
	register(&streamDef{name: "conconce", header: hdr, typ: "(Z * bool * Z)", checker: "check_conconce_all", gen: genConcOnce})
	register(&streamDef{name: "concshare", header: hdr, typ: "(Z * bool * Z)", checker: "check_concshare_all", gen: genConcShare})
}

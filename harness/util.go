package main

import (
	"fmt"
	"sort"
	"strings"
)

// ---------- PRNG (splitmix64), every random choice derives from one state ----------
type rng struct{ s uint64 }

func newRng(seed uint64) *rng { return &rng{s: seed*0x9E3779B97F4A7C15 + 0x1234567} }
func (r *rng) next() uint64 {
	r.s += 0x9E3779B97F4A7C15
	z := r.s
	z = (z ^ (z >> 30)) * 0xBF58476D1CE4E5B9
	z = (z ^ (z >> 27)) * 0x94D049BB133111EB
	return z ^ (z >> 31)
}
func (r *rng) intn(n int) int {
	if n <= 0 {
		return 0
	}
	return int(r.next() % uint64(n))
}
func (r *rng) chance(pct int) bool { return r.intn(100) < pct }
func (r *rng) pick(xs []int) int   { return xs[r.intn(len(xs))] }

// ---------- Coq term printing ----------
func z(i int) string {
	if i < 0 {
		return fmt.Sprintf("(%d)", i)
	}
	return fmt.Sprintf("%d", i)
}
func z64(i int64) string {
	if i < 0 {
		return fmt.Sprintf("(%d)", i)
	}
	return fmt.Sprintf("%d", i)
}
func zlist(xs []int) string {
	parts := make([]string, len(xs))
	for i, x := range xs {
		parts[i] = z(x)
	}
	return "[" + strings.Join(parts, "; ") + "]"
}
func slist(xs []string) string { return "[" + strings.Join(xs, "; ") + "]" }
func sortedCopy(xs []int) []int {
	c := append([]int(nil), xs...)
	sort.Ints(c)
	return c
}
func boolc(b bool) string {
	if b {
		return "true"
	}
	return "false"
}

// counters for the measured input distribution
type stats map[string]int

func (s stats) inc(k string) { s[k]++ }

package main

import (
	"errors"
	"fmt"
	"os"
	"reflect"
	"runtime"
	"sort"
	"strings"
	"sync/atomic"
	"time"

	am "github.com/hashicorp/go-argmapper"
	"github.com/hashicorp/go-hclog"
)

// ---------------- abstract scenario ----------------
const (
	FPos    = 0
	FStruct = 1
	FPtr    = 2
)

type Field struct {
	Name string // "" = type-only
	Ty   int
	Sub  string
}

type FnDecl struct {
	ID      int
	InForm  int
	In      []Field
	OutForm int
	Out     []Field
	Err     bool
	Once    bool
	Built   bool // assembled with BuildFunc from two value sets (struct in, struct out, error)
	Ident   bool // identity body (returns its arguments, records nothing): the twin of Convert
	SameSet bool // (Built) ONE value set object is both the input and the output set
	ShareIn int  // >0 (Built): the input value set is the very set object Funcs[ShareIn-1].Input() returns
	// materialised
	ftype int
	fn    *am.Func
	raw   interface{}
}

type Val struct {
	Serial int
	Ty     int
}

type GenRow struct {
	Key vkeyT
	Res int // 0 none, 1 err, 2 func
	Err int
	Fn  int // index into scenario funcs
}
type GenDecl struct {
	ID   int
	Rows []GenRow
}

type Flt struct {
	Kind int // 0 type, 1 or, 2 and, 3 name test, 4 subtype test
	Ty   int
	Name string // kinds 3, 4: the name / subtype the value must carry
	Subs []Flt
}

type Opt struct {
	Kind string // named namedsub typed typedsub conv convfunc gen filterin filterout nil other
	Name string
	Sub  string
	Vals []*Val // nil entry = nil value
	Fns  []int  // function indices; -1 = nil / not a function
	Gens []int
	Flt  *Flt
}

type BehRow struct {
	Fid  int
	From int
	Kind int // 1 err, 2 nil ptr
	Err  int
}

type Op struct {
	Kind        string // call convert redefine callredef
	Target      int    // function index (call/redefine)
	Ty          int    // convert
	Defaults    []Opt
	Opts        []Opt
	Ref         int   // callredef: index of the redefine op
	Vals        []int // callredef: serial per declared input (filled at run time)
	OrdSeed     uint64
	SharePrefix int // >0: Defaults = Defaults of op (SharePrefix-1) plus more, built on the same backing array
	SliceOf     int // >0: the argument slice is a PREFIX (base[:n], capacity kept) of the slice op (SliceOf-1) passed
	ShareOpts   int // >0 (redefine): Opts = Opts of op (ShareOpts-1) plus more, passed in a slice built on the same backing array
}

type Scenario struct {
	Funcs []*FnDecl
	Gens  []*GenDecl
	Beh   []BehRow
	Ops   []Op
}

// vertex keys as the model names them
type vkeyT struct {
	Kind int // 0 root 1 func 2 val 3 arg 4 out
	FT   int
	Name string
	Ty   int
	Sub  string
}

func (k vkeyT) term() string {
	switch k.Kind {
	case 0:
		return "KRoot"
	case 1:
		return fmt.Sprintf("(KFunc %s)", z(k.FT))
	case 2:
		return fmt.Sprintf("(KVal %s %s %s)", str(k.Name), z(k.Ty), str(k.Sub))
	case 3:
		return fmt.Sprintf("(KArg %s %s)", z(k.Ty), str(k.Sub))
	default:
		return fmt.Sprintf("(KOut %s %s)", z(k.Ty), str(k.Sub))
	}
}

// str prints a Coq string literal: a double quote is doubled, nothing else is escaped
func str(s string) string { return "\"" + strings.ReplaceAll(s, "\"", "\"\"") + "\"%string" }

// ---------------- materialisation ----------------
type execEvent struct {
	fid  int
	args []int
	outs []int
	err  int // -1 none
}

type runtimeT struct {
	sc       *Scenario
	nexec    int
	events   []string // Coq terms
	errs     map[int]error
	ftypes   map[reflect.Type]int
	watchdog *int64
}

var nullLog = am.Logger(hclog.NewNullLogger())

// error values of several shapes: ordinary pointer errors, and errors whose
// dynamic value is the zero value of its type (errno(0), struct{}, nil pointer
// of an error type) -- all non-nil as error interface values
type errno int

func (e errno) Error() string { return fmt.Sprintf("scenario errno %d", int(e)) }

type errEmpty struct{}

func (errEmpty) Error() string { return "scenario empty error" }

type errPtr struct{ id int }

func (e *errPtr) Error() string { return "scenario pointer error" }

func (rt *runtimeT) errOf(e int) error {
	if x, ok := rt.errs[e]; ok {
		return x
	}
	var x error
	switch e {
	case 900:
		x = errno(0)
	case 901:
		x = errEmpty{}
	case 902:
		x = (*errPtr)(nil)
	case 903:
		x = errno(903)
	case 904:
		// a converter that forwards the unsatisfied-argument error of a nested Call
		x = &am.ErrArgumentUnsatisfied{}
	case 905:
		// ... or reports it with context (wrapped)
		x = fmt.Errorf("nested call: %w", &am.ErrArgumentUnsatisfied{})
	default:
		x = fmt.Errorf("scenario error %d", e)
	}
	rt.errs[e] = x
	return x
}

func structOf(fields []Field) reflect.Type {
	sf := []reflect.StructField{{Name: "Struct", Type: structMarker, Anonymous: true}}
	for i, f := range fields {
		tag := f.Name
		if (i+len(fields))%4 == 1 {
			tag = strings.ToUpper(f.Name) // names are matched case-insensitively, on both sides
		}
		if f.Name == "" {
			tag = ",typeOnly"
			if (i+len(fields))%3 == 1 {
				tag = "zz,typeOnly" // typeOnly wins over a name given in the same tag
			}
		}
		if f.Sub != "" {
			tag += ",subtype=" + f.Sub
		}
		sf = append(sf, reflect.StructField{
			Name: fmt.Sprintf("F%d", i),
			Type: tyOf[f.Ty],
			Tag:  reflect.StructTag(fmt.Sprintf(`argmapper:"%s"`, tag)),
		})
	}
	return reflect.StructOf(sf)
}

func sigTypes(form int, fields []Field) []reflect.Type {
	if len(fields) == 0 {
		return nil
	}
	switch form {
	case FPos:
		ts := make([]reflect.Type, len(fields))
		for i, f := range fields {
			ts[i] = tyOf[f.Ty]
		}
		return ts
	case FStruct:
		return []reflect.Type{structOf(fields)}
	default:
		return []reflect.Type{reflect.PtrTo(structOf(fields))}
	}
}

func (rt *runtimeT) behOf(fid, n int) (kind, err int) {
	for _, b := range rt.sc.Beh {
		if b.Fid == fid && n >= b.From {
			return b.Kind, b.Err
		}
	}
	return 0, 0
}

func (rt *runtimeT) funcType(d *FnDecl) reflect.Type {
	in := sigTypes(d.InForm, d.In)
	out := sigTypes(d.OutForm, d.Out)
	if d.Err {
		out = append(out, errorType)
	}
	return reflect.FuncOf(in, out, false)
}

func valueSetOf(fs []Field) (*am.ValueSet, error) {
	var vs []am.Value
	for _, f := range fs {
		vs = append(vs, am.Value{Name: f.Name, Type: tyOf[f.Ty], Subtype: f.Sub})
	}
	return am.NewValueSet(vs)
}

func setPtr(set *am.ValueSet, f Field, all []Field) *am.Value {
	if f.Name != "" {
		return set.Named(f.Name)
	}
	// Typed(t) finds THE type-only value of a type; when several type-only values share the
	// type they are told apart by subtype (TypedSubtype returns the first value, named ones
	// included, with that type and subtype -- so it is only used when needed)
	n := 0
	for _, g := range all {
		if g.Name == "" && g.Ty == f.Ty {
			n++
		}
	}
	if n > 1 {
		return set.TypedSubtype(tyOf[f.Ty], f.Sub)
	}
	return set.Typed(tyOf[f.Ty])
}

// materialiseBuilt assembles the function with BuildFunc: the callback reads
// its arguments from the input set and writes its results into the output set.
func (rt *runtimeT) materialiseBuilt(d *FnDecl) error {
	in, err := valueSetOf(d.In)
	if err != nil {
		return err
	}
	if d.ShareIn > 0 && rt.sc.Funcs[d.ShareIn-1].fn != nil {
		// a wrapper built from another function's own input set (shared object)
		in = rt.sc.Funcs[d.ShareIn-1].fn.Input()
	}
	out, err := valueSetOf(d.Out)
	if err != nil {
		return err
	}
	if d.SameSet {
		out = in
	}
	if len(d.Out) == 0 {
		out = nil // no results: BuildFunc(in, nil, cb); an EMPTY input list stays an explicit zero-length set
	}
	cb := func(i, o *am.ValueSet) error {
		rt.nexec++
		n := rt.nexec
		var argIDs, outIDs []string
		for _, f := range d.In {
			argIDs = append(argIDs, fmt.Sprintf("(mkV %s %s)", z(serialOf(setPtr(i, f, d.In).Value)), z(f.Ty)))
		}
		kind, e := rt.behOf(d.ID, n)
		if kind == 2 {
			kind = 0
		}
		for k, f := range d.Out {
			s := 1000*n + k + 1
			if kind != 0 {
				s = 0
				setPtr(o, f, d.Out).Value = reflect.Zero(tyOf[f.Ty])
			} else if c, ok := carrier[f.Ty]; ok && (n+k)%2 == 0 {
				// the way a callback naturally fills an interface-typed output
				setPtr(o, f, d.Out).Value = mkVal(c, s)
			} else {
				setPtr(o, f, d.Out).Value = mkFieldVal(f.Ty, s)
			}
			outIDs = append(outIDs, fmt.Sprintf("(mkV %s %s)", z(s), z(f.Ty)))
		}
		errTerm := "None"
		var ret error
		if kind == 1 {
			ret = rt.errOf(e)
			errTerm = fmt.Sprintf("(Some %s)", z(e))
		}
		rt.events = append(rt.events, fmt.Sprintf("(EExec %s %s %s %s)", z(d.ID), slist(argIDs), slist(outIDs), errTerm))
		return ret
	}
	var opts []am.Arg
	if d.Once {
		opts = append(opts, am.FuncOnce())
	}
	f, err := am.BuildFunc(in, out, cb, opts...)
	if err != nil {
		return err
	}
	d.fn = f
	d.raw = f.Func()
	ft := reflect.TypeOf(d.raw)
	id, ok := rt.ftypes[ft]
	if !ok {
		id = 100 + len(rt.ftypes)
		rt.ftypes[ft] = id
	}
	d.ftype = id
	return nil
}

func (rt *runtimeT) materialise(d *FnDecl) error {
	if d.Built {
		return rt.materialiseBuilt(d)
	}
	ft := rt.funcType(d)
	id, ok := rt.ftypes[ft]
	if !ok {
		id = 100 + len(rt.ftypes)
		rt.ftypes[ft] = id
	}
	d.ftype = id
	body := func(args []reflect.Value) []reflect.Value {
		if d.Ident {
			rt.nexec++ // numbered like the library's internal identity function
			return args
		}
		rt.nexec++
		n := rt.nexec
		// arguments as the function sees them, per declared input field
		var argIDs []string
		fieldsIn := args
		if d.InForm != FPos && len(d.In) > 0 {
			sv := args[0]
			if d.InForm == FPtr {
				sv = sv.Elem()
			}
			fieldsIn = nil
			for i := range d.In {
				fieldsIn = append(fieldsIn, sv.Field(i+1))
			}
		}
		for i, f := range d.In {
			argIDs = append(argIDs, fmt.Sprintf("(mkV %s %s)", z(serialOf(fieldsIn[i])), z(f.Ty)))
		}
		kind, e := rt.behOf(d.ID, n)
		if kind == 1 && !d.Err {
			kind = 0
		}
		if kind == 2 && !(d.OutForm == FPtr && len(d.Out) > 0) {
			kind = 0
		}
		vals := make([]reflect.Value, len(d.Out))
		var outIDs []string
		for i, f := range d.Out {
			s := 1000*n + i + 1
			if kind != 0 {
				s = 0
				vals[i] = reflect.Zero(tyOf[f.Ty])
			} else {
				vals[i] = mkFieldVal(f.Ty, s)
			}
			outIDs = append(outIDs, fmt.Sprintf("(mkV %s %s)", z(s), z(f.Ty)))
		}
		var res []reflect.Value
		if len(d.Out) > 0 {
			switch d.OutForm {
			case FPos:
				res = vals
			default:
				st := structOf(d.Out)
				sv := reflect.New(st)
				for i := range d.Out {
					sv.Elem().Field(i + 1).Set(vals[i])
				}
				if d.OutForm == FStruct {
					res = []reflect.Value{sv.Elem()}
				} else if kind == 2 {
					res = []reflect.Value{reflect.Zero(reflect.PtrTo(st))}
				} else {
					res = []reflect.Value{sv}
				}
			}
		}
		errTerm := "None"
		if d.Err {
			if kind == 1 {
				res = append(res, reflect.ValueOf(rt.errOf(e)).Convert(errorType))
				errTerm = fmt.Sprintf("(Some %s)", z(e))
			} else {
				res = append(res, reflect.Zero(errorType))
			}
		}
		rt.events = append(rt.events, fmt.Sprintf("(EExec %s %s %s %s)", z(d.ID), slist(argIDs), slist(outIDs), errTerm))
		return res
	}
	d.raw = reflect.MakeFunc(ft, body).Interface()
	var opts []am.Arg
	if d.Once {
		opts = append(opts, am.FuncOnce())
	}
	f, err := am.NewFunc(d.raw, opts...)
	if err != nil {
		return err
	}
	d.fn = f
	return nil
}

// ---------------- options ----------------
func (rt *runtimeT) fltOf(f *Flt) am.FilterFunc {
	switch f.Kind {
	case 0:
		return am.FilterType(tyOf[f.Ty])
	case 3:
		want := f.Name
		return func(v am.Value) bool { return v.Name == want }
	case 4:
		want := f.Name
		return func(v am.Value) bool { return v.Subtype == want }
	case 1:
		var fs []am.FilterFunc
		for i := range f.Subs {
			fs = append(fs, rt.fltOf(&f.Subs[i]))
		}
		return am.FilterOr(fs...)
	default:
		var fs []am.FilterFunc
		for i := range f.Subs {
			fs = append(fs, rt.fltOf(&f.Subs[i]))
		}
		return am.FilterAnd(fs...)
	}
}

func fltTerm(f *Flt) string {
	if f == nil {
		return "(FltAnd [])" // no filter: everything is permitted
	}
	switch f.Kind {
	case 0:
		return fmt.Sprintf("(FltType %s)", z(f.Ty))
	case 3:
		return fmt.Sprintf("(FltName %s)", str(f.Name))
	case 4:
		return fmt.Sprintf("(FltSub %s)", str(f.Name))
	case 1, 2:
		var ps []string
		for i := range f.Subs {
			ps = append(ps, fltTerm(&f.Subs[i]))
		}
		c := "FltOr"
		if f.Kind == 2 {
			c = "FltAnd"
		}
		return fmt.Sprintf("(%s %s)", c, slist(ps))
	}
	return "(FltOr [])"
}

func valIface(v *Val) interface{} {
	if v == nil {
		return nil
	}
	return mkVal(v.Ty, v.Serial).Interface()
}
func valTerm(v *Val) string {
	if v == nil {
		return "None"
	}
	return fmt.Sprintf("(Some (mkV %s %s))", z(v.Serial), z(v.Ty))
}

func (rt *runtimeT) keyOfValue(v am.Value) vkeyT {
	tid := tidOfType[v.Type]
	if v.Name != "" {
		return vkeyT{Kind: 2, Name: v.Name, Ty: tid, Sub: v.Subtype}
	}
	return vkeyT{Kind: 4, Ty: tid, Sub: v.Subtype}
}

func (rt *runtimeT) goOpts(opts []Opt) []am.Arg {
	var out []am.Arg
	for _, o := range opts {
		o := o
		switch o.Kind {
		case "named":
			out = append(out, am.Named(o.Name, valIface(o.Vals[0])))
		case "namedsub":
			out = append(out, am.NamedSubtype(o.Name, valIface(o.Vals[0]), o.Sub))
		case "typed":
			var vs []interface{}
			for _, v := range o.Vals {
				vs = append(vs, valIface(v))
			}
			out = append(out, am.Typed(vs...))
		case "typedsub":
			out = append(out, am.TypedSubtype(valIface(o.Vals[0]), o.Sub))
		case "conv":
			var fs []interface{}
			for _, i := range o.Fns {
				if i == -1 {
					fs = append(fs, nil)
				} else if i == -2 {
					fs = append(fs, 42) // not a function
				} else {
					fs = append(fs, rt.sc.Funcs[i].raw)
				}
			}
			out = append(out, am.Converter(fs...))
		case "convfunc":
			var fs []*am.Func
			for _, i := range o.Fns {
				if i < 0 {
					fs = append(fs, nil)
				} else {
					fs = append(fs, rt.sc.Funcs[i].fn)
				}
			}
			out = append(out, am.ConverterFunc(fs...))
		case "gen":
			var gs []am.ConverterGenFunc
			for _, gi := range o.Gens {
				gd := rt.sc.Gens[gi]
				gs = append(gs, func(v am.Value) (*am.Func, error) {
					k := rt.keyOfValue(v)
					rt.events = append(rt.events, fmt.Sprintf("(EGen %s %s)", z(gd.ID), k.term()))
					for _, row := range gd.Rows {
						if row.Key == k {
							switch row.Res {
							case 1:
								return nil, rt.errOf(row.Err)
							case 2:
								return rt.sc.Funcs[row.Fn].fn, nil
							}
							return nil, nil
						}
					}
					return nil, nil
				})
			}
			out = append(out, am.ConverterGen(gs...))
		case "filterin":
			if o.Flt == nil {
				out = append(out, am.FilterInput(nil)) // documented: replaces (removes) an earlier filter
			} else {
				out = append(out, am.FilterInput(rt.fltOf(o.Flt)))
			}
		case "filterout":
			out = append(out, am.FilterOutput(rt.fltOf(o.Flt)))
		case "nil":
			out = append(out, nil)
		case "other":
			out = append(out, am.FuncName("x"))
		}
	}
	return out
}

func (rt *runtimeT) fnTerm(i int) string {
	if i < 0 {
		return "None"
	}
	return fmt.Sprintf("(Some %s)", fdeclTerm(rt.sc.Funcs[i]))
}

func fieldsTerm(fs []Field) string {
	var ps []string
	for _, f := range fs {
		ps = append(ps, fmt.Sprintf("(mkF %s %s %s)", str(f.Name), z(f.Ty), str(f.Sub)))
	}
	return slist(ps)
}
func formTerm(f int) string { return []string{"FPos", "FStruct", "FPtr"}[f] }
func fdeclTerm(d *FnDecl) string {
	return fmt.Sprintf("(mkFn %s %s %s %s %s %s %s %s)", z(d.ID), z(d.ftype), formTerm(d.InForm), fieldsTerm(d.In),
		formTerm(d.OutForm), fieldsTerm(d.Out), boolc(d.Err), boolc(d.Once))
}

func (rt *runtimeT) optsTerm(opts []Opt) string {
	var ps []string
	for _, o := range opts {
		switch o.Kind {
		case "named":
			ps = append(ps, fmt.Sprintf("(ANamed %s %s)", str(o.Name), valTerm(o.Vals[0])))
		case "namedsub":
			ps = append(ps, fmt.Sprintf("(ANamedSub %s %s %s)", str(o.Name), valTerm(o.Vals[0]), str(o.Sub)))
		case "typed":
			var vs []string
			for _, v := range o.Vals {
				vs = append(vs, valTerm(v))
			}
			ps = append(ps, fmt.Sprintf("(ATyped %s)", slist(vs)))
		case "typedsub":
			ps = append(ps, fmt.Sprintf("(ATypedSub %s %s)", valTerm(o.Vals[0]), str(o.Sub)))
		case "conv", "convfunc":
			var fs []string
			for _, i := range o.Fns {
				if o.Kind == "conv" && i >= 0 {
					// Converter(raw) wraps the raw function in a fresh Func: no FuncOnce
					d := *rt.sc.Funcs[i]
					d.Once = false
					fs = append(fs, fmt.Sprintf("(Some %s)", fdeclTerm(&d)))
					continue
				}
				fs = append(fs, rt.fnTerm(i))
			}
			c := "AConv"
			if o.Kind == "convfunc" {
				c = "AConvFunc"
			}
			ps = append(ps, fmt.Sprintf("(%s %s)", c, slist(fs)))
		case "gen":
			var gs []string
			for _, gi := range o.Gens {
				gd := rt.sc.Gens[gi]
				var rows []string
				for _, r := range gd.Rows {
					res := "GNone"
					if r.Res == 1 {
						res = fmt.Sprintf("(GErr %s)", z(r.Err))
					} else if r.Res == 2 {
						res = fmt.Sprintf("(GFunc %s)", fdeclTerm(rt.sc.Funcs[r.Fn]))
					}
					rows = append(rows, fmt.Sprintf("(%s, %s)", r.Key.term(), res))
				}
				gs = append(gs, fmt.Sprintf("(mkGen %s %s)", z(gd.ID), slist(rows)))
			}
			ps = append(ps, fmt.Sprintf("(AConvGen %s)", slist(gs)))
		case "filterin":
			ps = append(ps, fmt.Sprintf("(AFilterIn %s)", fltTerm(o.Flt)))
		case "filterout":
			ps = append(ps, fmt.Sprintf("(AFilterOut %s)", fltTerm(o.Flt)))
		case "nil":
			ps = append(ps, "ANil")
		default:
			ps = append(ps, "AOther")
		}
	}
	return slist(ps)
}

// ---------------- tape decoding ----------------
var resolverSites = map[string]int{siteDijkPop: 1, siteReachOut: 10, siteReachIn: 11, siteGenVerts: 12}

func (rt *runtimeT) decodeKey(k interface{}) (vkeyT, bool) {
	switch x := k.(type) {
	case string:
		if strings.HasPrefix(x, "arg: ") || strings.HasPrefix(x, "out: ") {
			rest := x[5:]
			i := strings.LastIndex(rest, "/")
			if i < 0 {
				return vkeyT{}, false
			}
			tid, ok := tidOfName(rest[:i])
			if !ok {
				return vkeyT{}, false
			}
			kind := 3
			if strings.HasPrefix(x, "out: ") {
				kind = 4
			}
			return vkeyT{Kind: kind, Ty: tid, Sub: rest[i+1:]}, true
		}
		parts := strings.Split(x, "/")
		if len(parts) != 3 {
			return vkeyT{}, false
		}
		tid, ok := tidOfName(parts[1])
		if !ok {
			return vkeyT{}, false
		}
		return vkeyT{Kind: 2, Name: parts[0], Ty: tid, Sub: parts[2]}, true
	case reflect.Type:
		id, ok := rt.ftypes[x]
		if !ok {
			id = 100 + len(rt.ftypes)
			rt.ftypes[x] = id
		}
		return vkeyT{Kind: 1, FT: id}, true
	default:
		if am.VerifIsRoot(k) {
			return vkeyT{Kind: 0}, true
		}
	}
	return vkeyT{}, false
}

func (rt *runtimeT) tapeTerm(recs []am.VerifRec) string {
	var parts []string
	for _, r := range recs {
		id, ok := resolverSites[r.Site]
		if !ok {
			continue
		}
		var ks []string
		for _, k := range r.Keys {
			vk, ok := rt.decodeKey(k)
			if !ok {
				ks = append(ks, "KRoot (* undecodable *)")
				continue
			}
			ks = append(ks, vk.term())
		}
		parts = append(parts, fmt.Sprintf("(%d%%N, %s)", id, slist(ks)))
	}
	return slist(parts)
}

// ---------------- running ----------------
func (rt *runtimeT) classify(err error, targetRan bool) string {
	if err == nil {
		return ""
	}
	for e, x := range rt.errs {
		var inner *am.ErrArgumentUnsatisfied
		if errors.As(x, &inner) && err == x {
			return fmt.Sprintf("(ObsErrId %s)", z(e)) // the converter's own error value, verbatim
		}
	}
	var ua *am.ErrArgumentUnsatisfied
	if errors.As(err, &ua) {
		var args, ins, convs []string
		for _, a := range ua.Args {
			k := rt.keyOfValue(*a)
			if a.Name == "" {
				k.Kind = 3
			}
			args = append(args, k.term())
		}
		for _, a := range ua.Inputs {
			ins = append(ins, rt.keyOfValue(*a).term())
		}
		for _, c := range ua.Converters {
			// converters are identified by their Go function type, in order
			k, _ := rt.decodeKey(reflect.TypeOf(c.Func()))
			convs = append(convs, z(k.FT))
		}
		sort.Strings(args)
		sort.Strings(ins)
		full := len(ua.Inputs) > 0 || len(ua.Converters) > 0
		msgOK := true
		msg := err.Error()
		for _, a := range ua.Args {
			if !strings.Contains(msg, a.String()) {
				msgOK = false
			}
		}
		return fmt.Sprintf("(ObsUnsat %s %s %s %s %s)", slist(args), slist(ins), slist(convs), boolc(full), boolc(msgOK))
	}
	for e, x := range rt.errs {
		if err == x {
			return fmt.Sprintf("(ObsErrId %s)", z(e))
		}
	}
	if ev, ok := err.(E0); ok {
		return fmt.Sprintf("(ObsErrValue %s)", z(int(ev)))
	}
	msg := err.Error()
	switch {
	case strings.Contains(msg, "arg cannot be nil"), strings.Contains(msg, "fn should be a function"):
		return "ObsBuild"
	case strings.Contains(msg, "argument cannot be satisfied"):
		return "ObsMissing"
	case strings.Contains(msg, "does not satisfy output filter"):
		return "ObsFilterOut"
	case strings.Contains(msg, "more than one input named"):
		return "ObsDupInput"
	}
	for e, x := range rt.errs {
		if strings.Contains(msg, x.Error()) {
			return fmt.Sprintf("(ObsErrWrapped %s)", z(e))
		}
	}
	return "ObsOtherErr"
}

type opObs struct {
	term string
	cat  string
}

func (rt *runtimeT) resultTerm(r am.Result, d *FnDecl) string {
	// Len, Out(i) (serials of raw outputs), Err
	var outs []string
	n := r.Len()
	for i := 0; i < n; i++ {
		v := reflect.ValueOf(r.Out(i))
		outs = append(outs, rawOutTerm(v))
	}
	return fmt.Sprintf("%s %s", z(n), slist(outs))
}

func rawOutTerm(v reflect.Value) string {
	if !v.IsValid() {
		return "[0]"
	}
	ptr := false
	for v.Kind() == reflect.Ptr {
		if v.IsNil() {
			if v.Type().Elem().Kind() != reflect.Struct {
				return "[0]" // a nil pointer VALUE of the universe (*T0), not a nil *struct result
			}
			return "[(-1)]"
		}
		v = v.Elem()
		ptr = true
	}
	if v.Kind() == reflect.Struct {
		var ss []int
		if ptr {
			ss = append(ss, -77) // a pointer to the struct, not the struct
		}
		for i := 1; i < v.NumField(); i++ {
			ss = append(ss, serialOf(v.Field(i)))
		}
		return zlist(ss)
	}
	return zlist([]int{serialOf(v)})
}

var lastCores []string // observation + events of each op of the last scenario run (no tape)

func runScenario(sc *Scenario, seed uint64, wd *int64) (terms []string, cats []string, panicked bool) {
	lastCores = nil
	rt := &runtimeT{sc: sc, errs: map[int]error{}, ftypes: map[reflect.Type]int{}, watchdog: wd}
	for _, t := range append(append([]int(nil), concreteTys...), extraTys...) {
		// identity function types of Convert get the ids the model expects
		rt.ftypes[reflect.FuncOf([]reflect.Type{tyOf[t]}, []reflect.Type{tyOf[t]}, false)] = -1 - t
	}
	for _, t := range append([]int{30, 31, 12}, ifaceTys...) {
		rt.ftypes[reflect.FuncOf([]reflect.Type{tyOf[t]}, []reflect.Type{tyOf[t]}, false)] = -1 - t
	}
	for _, d := range sc.Funcs {
		if err := rt.materialise(d); err != nil {
			panic(fmt.Sprintf("materialise: %v", err))
		}
	}
	redefs := map[int]*am.Func{}
	redefIns := map[int][]am.Value{}
	// Funcs with default options are created up front, the way user code
	// does; default slices have spare capacity and may share a backing array
	pre := map[int]*am.Func{}
	preByKey := map[string]*am.Func{}
	redefArgs := map[int][]am.Arg{}
	argsBy := map[int][]am.Arg{}
	preErr := map[int]bool{}
	backing := map[int][]am.Arg{}
	for oi := range sc.Ops {
		op := &sc.Ops[oi]
		if (op.Kind != "call" && op.Kind != "redefine") || len(op.Defaults) == 0 {
			continue
		}
		var defs []am.Arg
		if op.SharePrefix > 0 && backing[op.SharePrefix-1] != nil {
			base := backing[op.SharePrefix-1]
			extra := rt.goOpts(op.Defaults[len(sc.Ops[op.SharePrefix-1].Defaults):])
			defs = append(base, extra...)
		} else {
			defs = make([]am.Arg, 0, len(op.Defaults)+8)
			defs = append(defs, rt.goOpts(op.Defaults)...)
		}
		backing[oi] = defs
		key := fmt.Sprintf("%d|%s", op.Target, rt.optsTerm(op.Defaults))
		if op.SharePrefix == 0 {
			if f, ok := preByKey[key]; ok {
				pre[oi] = f // the same Func object is used again, as a program would
				continue
			}
		}
		withRecover(func() {
			all := defs
			if sc.Funcs[op.Target].Once {
				// a run-once target keeps its option when it is built with defaults
				all = append(defs[:len(defs):len(defs)], am.FuncOnce())
			}
			f, err := am.NewFunc(sc.Funcs[op.Target].raw, all...)
			if err != nil {
				preErr[oi] = true
			} else {
				pre[oi] = f
				if op.SharePrefix == 0 {
					preByKey[key] = f
				}
			}
		})
	}
	for oi := range sc.Ops {
		op := &sc.Ops[oi]
		rt.events = nil
		if op.Kind == "convert" && (op.Ty == 30 || op.Ty == 31) {
			dupTid = op.Ty
		}
		atomic.StoreInt64(wd, time.Now().UnixNano())
		os_ := seed + uint64(oi)*977
		if op.OrdSeed != 0 {
			os_ = op.OrdSeed
		}
		am.VerifOrdReset(os_, true)
		var obs, cat string
		var p bool
		var pmsg string
		switch op.Kind {
		case "call":
			d := sc.Funcs[op.Target]
			p, pmsg = withRecover(func() {
				// defaults are attached at construction
				f := d.fn
				if len(op.Defaults) > 0 {
					f = pre[oi]
					if f == nil {
						obs, cat = "(ObsCall ObsBuild 0 [])", "build"
						return
					}
				}
				args := rt.callArgs(op.Opts)
				if op.SliceOf > 0 && len(argsBy[op.SliceOf-1]) >= 1+len(op.Opts) {
					args = argsBy[op.SliceOf-1][:1+len(op.Opts)]
				} else {
					argsBy[oi] = args
				}
				r := f.Call(args...)
				ran := false
				for _, e := range rt.events {
					if strings.HasPrefix(e, fmt.Sprintf("(EExec %s ", z(d.ID))) {
						ran = true
					}
				}
				_ = ran
				c := rt.classify(r.Err(), ran)
				if c == "" {
					c = "ObsOk"
				}
				cat = strings.Fields(strings.Trim(c, "()"))[0]
				obs = fmt.Sprintf("(ObsCall %s %s)", c, rt.resultTerm(r, d))
			})
		case "convert":
			p, pmsg = withRecover(func() {
				args := rt.callArgs(op.Opts)
				v, err := am.Convert(tyOf[op.Ty], args...)
				c := rt.classify(err, false)
				if c == "" {
					c = "ObsOk"
				}
				cat = "convert:" + strings.Fields(strings.Trim(c, "()"))[0]
				val := "None"
				if err == nil {
					rv := reflect.ValueOf(v)
					val = fmt.Sprintf("(Some %s)", z(serialOf(rv)))
					if v != nil && !rv.Type().AssignableTo(tyOf[op.Ty]) {
						val = "(Some (-5))"
					}
				} else if v != nil {
					val = "(Some (-6))"
				}
				obs = fmt.Sprintf("(ObsConvert %s %s)", c, val)
				if err == nil {
					// the library's internal identity function ran once: the model
					// numbers that execution too
					rt.nexec++
				}
			})
		case "redefine":
			d := sc.Funcs[op.Target]
			p, pmsg = withRecover(func() {
				f := d.fn
				if len(op.Defaults) > 0 {
					f = pre[oi]
					if f == nil {
						obs, cat = "(ObsRedefine ObsBuild [])", "build"
						return
					}
				}
				args := rt.callArgs(op.Opts)
				if op.SliceOf > 0 && len(argsBy[op.SliceOf-1]) >= 1+len(op.Opts) {
					// Redefine(full[:n]...): a sub-slice of a list the caller keeps using
					args = argsBy[op.SliceOf-1][:1+len(op.Opts)]
				} else if op.ShareOpts > 0 && redefArgs[op.ShareOpts-1] != nil {
					// append(base, more...) on the slice an earlier Redefine was given
					base := redefArgs[op.ShareOpts-1]
					args = append(base, rt.goOpts(op.Opts[len(sc.Ops[op.ShareOpts-1].Opts):])...)
				} else if len(args) > 0 {
					// the caller's slice has spare capacity
					withCap := make([]am.Arg, len(args), len(args)+6)
					copy(withCap, args)
					args = withCap
					redefArgs[oi] = args
				}
				nf, err := f.Redefine(args...)
				c := rt.classify(err, false)
				if c == "" {
					c = "ObsOk"
				}
				cat = "redefine:" + strings.Fields(strings.Trim(c, "()"))[0]
				var ins []string
				if err == nil {
					redefs[oi] = nf
					vals := nf.Input().Values()
					redefIns[oi] = vals
					for _, v := range vals {
						if v.Name != "" {
							ins = append(ins, fmt.Sprintf("(RNamed %s %s)", str(v.Name), z(tidOfType[v.Type])))
						} else {
							ins = append(ins, fmt.Sprintf("(RTyped %s)", z(tidOfType[v.Type])))
						}
					}
					sort.Strings(ins)
				}
				obs = fmt.Sprintf("(ObsRedefine %s %s)", c, slist(ins))
			})
		case "callredef":
			nf := redefs[op.Ref]
			if nf == nil {
				obs, cat = "ObsSkip", "skip"
				break
			}
			d := sc.Funcs[sc.Ops[op.Ref].Target]
			p, pmsg = withRecover(func() {
				args := []am.Arg{nullLog}
				var given []string
				nilGiven := false
				for _, o := range append(append([]Opt(nil), sc.Ops[op.Ref].Opts...), sc.Ops[op.Ref].Defaults...) {
					for _, v := range o.Vals {
						if v != nil && v.Serial == 0 {
							nilGiven = true // values are identified by their serial: one zero value at most
						}
					}
				}
				for i, v := range redefIns[op.Ref] {
					serial := 500 + 10*oi + i
					tid := tidOfType[v.Type]
					ctid := tid
					if c, ok := carrier[tid]; ok {
						ctid = c
					}
					switch tyOf[ctid].Kind() {
					case reflect.Ptr, reflect.Slice, reflect.Map, reflect.Chan:
						if (oi+i)%3 == 0 && !nilGiven {
							serial = 0 // a nil pointer / slice / map / channel is a legitimate value
							nilGiven = true
						}
					}
					if v.Name != "" && ctid != tid {
						// a named input of an interface type only accepts a value known under
						// that interface type; a caller provides the implementation by type
						args = append(args, am.Typed(mkVal(ctid, serial).Interface()))
						given = append(given, fmt.Sprintf("(RTyped %s, mkV %s %s)", z(ctid), z(serial), z(ctid)))
					} else if v.Name != "" {
						args = append(args, am.Named(v.Name, mkVal(ctid, serial).Interface()))
						given = append(given, fmt.Sprintf("(RNamed %s %s, mkV %s %s)", str(v.Name), z(tid), z(serial), z(ctid)))
					} else {
						args = append(args, am.Typed(mkVal(ctid, serial).Interface()))
						given = append(given, fmt.Sprintf("(RTyped %s, mkV %s %s)", z(tid), z(serial), z(ctid)))
					}
				}
				r := nf.Call(args...)
				c := rt.classify(r.Err(), false)
				if c == "" {
					c = "ObsOk"
				}
				cat = "callredef:" + strings.Fields(strings.Trim(c, "()"))[0]
				// the redefined function returns the original's raw results (+ error)
				ftk, _ := rt.decodeKey(reflect.TypeOf(nf.Func()))
				obs = fmt.Sprintf("(ObsCallRedef %s %s %s %s)", z(ftk.FT), slist(given), c, rt.resultTerm(r, d))
			})
		}
		tape := am.VerifOrdTape()
		am.VerifOrdReset(0, false)
		if p {
			panicked = true
			cat = "panic"
			obs = fmt.Sprintf("(ObsPanic %s)", str(truncate(pmsg, 60)))
		}
		terms = append(terms, fmt.Sprintf("(mkOpObs %s %s %s)", obs, slist(rt.events), rt.tapeTerm(tape)))
		lastCores = append(lastCores, obs+" "+slist(rt.events))
		cats = append(cats, cat)
	}
	return
}

func truncate(s string, n int) string {
	s = strings.Map(func(r rune) rune {
		if r < 32 || r > 126 || r == '"' || r == '\\' {
			return '_'
		}
		return r
	}, s)
	if len(s) > n {
		return s[:n]
	}
	return s
}

// scenario -> Coq term (without observations)
func (rt *runtimeT) opTerm(op *Op) string {
	switch op.Kind {
	case "call":
		return fmt.Sprintf("(OpCall %s %s %s)", fdeclTerm(rt.sc.Funcs[op.Target]), rt.optsTerm(op.Defaults), rt.optsTerm(op.Opts))
	case "convert":
		return fmt.Sprintf("(OpConvert %s %s)", z(op.Ty), rt.optsTerm(op.Opts))
	case "redefine":
		return fmt.Sprintf("(OpRedefine %s %s %s)", fdeclTerm(rt.sc.Funcs[op.Target]), rt.optsTerm(op.Defaults), rt.optsTerm(op.Opts))
	default:
		return fmt.Sprintf("(OpCallRedef %d%%nat)", op.Ref)
	}
}

func scenarioTerm(sc *Scenario, obs []string) string {
	rt := &runtimeT{sc: sc}
	var beh []string
	for _, b := range sc.Beh {
		k := "BOk"
		if b.Kind == 1 {
			k = fmt.Sprintf("(BErr %s)", z(b.Err))
		} else if b.Kind == 2 {
			k = "BNil"
		}
		beh = append(beh, fmt.Sprintf("(%s,%s,%s)", z(b.Fid), z(b.From), k))
	}
	var ops []string
	for i := range sc.Ops {
		ops = append(ops, fmt.Sprintf("(%s, %s)", rt.opTerm(&sc.Ops[i]), obs[i]))
	}
	return fmt.Sprintf("(mkScn %s %s %s)", universeTerm(), slist(beh), slist(ops))
}

// watchdog: a scenario that runs too long or allocates too much is a finding
// (hang / unbounded recursion); report which one and exit.
func startWatchdog(idx *int64, last *int64) {
	go func() {
		var ms runtime.MemStats
		for {
			time.Sleep(200 * time.Millisecond)
			t := atomic.LoadInt64(last)
			if t != 0 && time.Since(time.Unix(0, t)) > 20*time.Second {
				fmt.Fprintf(os.Stderr, "HANG case=%d\n", atomic.LoadInt64(idx))
				os.Exit(3)
			}
			runtime.ReadMemStats(&ms)
			if ms.HeapAlloc > 3<<30 {
				fmt.Fprintf(os.Stderr, "MEMORY case=%d\n", atomic.LoadInt64(idx))
				os.Exit(3)
			}
		}
	}()
}

// callArgs: the options of one Call/Redefine. An operation without options passes
// NO argument at all (not even the logger), as a program relying on defaults would.
func (rt *runtimeT) callArgs(opts []Opt) []am.Arg {
	if len(opts) == 0 {
		return nil
	}
	return append([]am.Arg{nullLog}, rt.goOpts(opts)...)
}

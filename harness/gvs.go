package main

import (
	"errors"
	"fmt"
	"reflect"
	"strings"

	am "github.com/hashicorp/go-argmapper"
)

// ---------- extra types for the introspection streams ----------
type plainStruct struct{ X int }
type myErr struct{ id int }

func (e *myErr) Error() string { return fmt.Sprintf("myErr %d", e.id) }

// static marker structs with unexported fields (reflect.StructOf cannot make those)
type statA struct {
	am.Struct
	A      T0
	hidden T1
	C      T2 `argmapper:"cc,subtype=x"`
}
type statB struct {
	X T3 `argmapper:",typeOnly"`
	am.Struct
	secret int
	Y      T4 `json:"y" argmapper:"Why"`
	z      T5 `argmapper:"zed"`
}

// two DIFFERENT marker structs with the same type name (declared in different functions)
func localParamsA() reflect.Type {
	type params struct {
		am.Struct
		A T0
		B T1 `argmapper:",typeOnly"`
	}
	return reflect.TypeOf(params{})
}
func localParamsB() reflect.Type {
	type params struct {
		am.Struct
		X T2 `argmapper:"ex,subtype=q"`
		Y T3
		Z T4
	}
	return reflect.TypeOf(params{})
}

// a marker struct that embeds other exported types
type Embedded struct{ X int }
type EmbIface interface{ M0() }
type statC struct {
	am.Struct
	Embedded
	EmbIface `argmapper:"emb,subtype=e"`
	K        T0
}

// a NAMED (not embedded) field of the marker type is an ordinary field: statD is a plain
// type, statE a marker struct with a value named "s"
type statD struct {
	S am.Struct
	K T0
}
type statE struct {
	am.Struct
	S am.Struct
	K T0 `argmapper:",typeOnly"`
}

var _ = statA{}.hidden
var _ = statB{}.secret
var _ = statB{}.z

var extraTy = map[int]reflect.Type{
	20:   reflect.TypeOf(plainStruct{}),
	23:   reflect.TypeOf(Embedded{}),
	25:   reflect.TypeOf(am.Struct{}),
	26:   reflect.TypeOf(statD{}),
	24:   reflect.TypeOf((*EmbIface)(nil)).Elem(),
	21:   reflect.PtrTo(reflect.TypeOf(T0(0))),
	22:   reflect.TypeOf(""),
	-100: errorType,
}

func tidOf(t reflect.Type) int {
	if t == errorType {
		return -100 // in the introspection streams the type error is the model's IErr / value type -100
	}
	if id, ok := tidOfType[t]; ok {
		return id
	}
	for id, x := range extraTy {
		if x == t {
			return id
		}
	}
	return -999
}
func typeOfTid(id int) reflect.Type {
	if t, ok := tyOf[id]; ok {
		return t
	}
	return extraTy[id]
}

func isMarkerStruct(t reflect.Type) bool {
	for t.Kind() == reflect.Ptr {
		t = t.Elem()
	}
	if t.Kind() != reflect.Struct {
		return false
	}
	for i := 0; i < t.NumField(); i++ {
		f := t.Field(i)
		if f.Anonymous && f.Type == structMarker {
			return true
		}
	}
	return false
}

// isigTerm describes a parameter/result type as introspection sees it,
// derived from the reflect.Type itself.
func isigTerm(t reflect.Type) string {
	if t == errorType {
		return "IErr"
	}
	if !isMarkerStruct(t) {
		return fmt.Sprintf("(IPlain %s)", z(tidOf(t)))
	}
	n := 0
	for t.Kind() == reflect.Ptr {
		t = t.Elem()
		n++
	}
	var fs []string
	for i := 0; i < t.NumField(); i++ {
		f := t.Field(i)
		marker := f.Anonymous && f.Type == structMarker
		fs = append(fs, fmt.Sprintf("(mkIF %s %s %s %s %s)", str(f.Name), boolc(f.PkgPath == ""), str(f.Tag.Get("argmapper")),
			z(tidOf(f.Type)), boolc(marker)))
	}
	return fmt.Sprintf("(IStruct %d%%nat %s)", n, slist(fs))
}

func ivTerm(v am.Value) string {
	return fmt.Sprintf("(mkIV %s %s %s)", str(v.Name), z(tidOf(v.Type)), str(v.Subtype))
}
func ivsTerm(vs []am.Value) string {
	var ps []string
	for _, v := range vs {
		ps = append(ps, ivTerm(v))
	}
	return slist(ps)
}

var tagNames = []string{"", "", "x", "Name", "aB", "q_1"}
var tagOpts = []string{"typeOnly", "subtype=s", "subtype=k=1", "subtype=", "unknown", "", "typeOnly", "subtype=t", "subtype=Zm9v==", "other=1"}

func randTag(r *rng) string {
	if r.chance(25) {
		return ""
	}
	parts := []string{tagNames[r.intn(len(tagNames))]}
	for i := r.intn(4); i > 0; i-- {
		parts = append(parts, tagOpts[r.intn(len(tagOpts))])
	}
	return strings.Join(parts, ",")
}

var fieldGoNames = []string{"A", "Bee", "C", "Dx", "E", "Foo"}

func randMarkerStruct(r *rng) reflect.Type {
	if r.chance(12) {
		return reflect.TypeOf(statA{})
	}
	if r.chance(12) {
		return reflect.TypeOf(statB{})
	}
	if r.chance(10) {
		return reflect.TypeOf(statC{})
	}
	if r.chance(8) {
		return reflect.TypeOf(statE{})
	}
	if r.chance(12) {
		if r.chance(50) {
			return localParamsA()
		}
		return localParamsB()
	}
	n := r.intn(5)
	pos := 0 // reflect.StructOf only supports an embedded type with methods as the first field
	var sf []reflect.StructField
	ftys := []int{0, 1, 2, 3, 4, 5, 10, 11, 20, 21, 22, -100}
	for i := 0; i <= n; i++ {
		if i == pos {
			sf = append(sf, reflect.StructField{Name: "Struct", Type: structMarker, Anonymous: true})
			continue
		}
		tag := randTag(r)
		st := reflect.StructTag("")
		if tag != "" || r.chance(10) {
			st = reflect.StructTag(fmt.Sprintf(`argmapper:"%s"`, tag))
			if r.chance(15) {
				st = reflect.StructTag(fmt.Sprintf(`json:"j" argmapper:"%s"`, tag))
			}
		}
		sf = append(sf, reflect.StructField{Name: fieldGoNames[i%len(fieldGoNames)], Type: typeOfTid(ftys[r.intn(len(ftys))]), Tag: st})
	}
	return reflect.StructOf(sf)
}

func randSigList(r *rng, st stats, allowErrAnywhere bool) []reflect.Type {
	plain := []int{0, 1, 2, 10, 20, 21, 22, 26} // 26: a struct with a NAMED field of the marker type is a plain type
	switch r.intn(6) {
	case 0:
		return nil
	case 1: // single marker struct, maybe behind pointers
		t := randMarkerStruct(r)
		for i := []int{0, 0, 1, 1, 2, 3}[r.intn(6)]; i > 0; i-- {
			t = reflect.PtrTo(t)
		}
		return []reflect.Type{t}
	case 2: // mixed
		ts := []reflect.Type{typeOfTid(plain[r.intn(len(plain))]), randMarkerStruct(r)}
		if r.chance(50) {
			ts[0], ts[1] = ts[1], ts[0]
		}
		if r.chance(30) {
			ts = append(ts, typeOfTid(plain[r.intn(len(plain))]))
		}
		return ts
	default:
		var ts []reflect.Type
		for i := 1 + r.intn(4); i > 0; i-- {
			if allowErrAnywhere && r.chance(15) {
				ts = append(ts, errorType)
			} else {
				ts = append(ts, typeOfTid(plain[r.intn(len(plain))]))
			}
		}
		return ts
	}
}

func genSig(r *rng, idx int, st stats) caseOut {
	var f interface{}
	isfunc := true
	var ins, outs []reflect.Type
	switch {
	case r.chance(6):
		isfunc = false
		fn := func(a T0) T1 { return T1(a) }
		f = []interface{}{nil, 42, "x", plainStruct{}, &plainStruct{}, &fn}[r.intn(6)]
	default:
		ins = randSigList(r, st, true)
		outs = randSigList(r, st, true)
		if r.chance(40) {
			outs = append(outs, errorType)
		}
		ft := reflect.FuncOf(ins, outs, false)
		f = reflect.MakeFunc(ft, func(args []reflect.Value) []reflect.Value {
			res := make([]reflect.Value, len(outs))
			for i, o := range outs {
				res[i] = reflect.Zero(o)
			}
			return res
		}).Interface()
	}
	var fn *am.Func
	var err error
	p, _ := withRecover(func() { fn, err = am.NewFunc(f) })
	obs := "None"
	if !p && err == nil {
		obs = fmt.Sprintf("(Some (%s, %s))", ivsTerm(fn.Input().Values()), ivsTerm(fn.Output().Values()))
	}
	var it, ot []string
	for _, t := range ins {
		it = append(it, isigTerm(t))
	}
	for _, t := range outs {
		ot = append(ot, isigTerm(t))
	}
	st.inc(fmt.Sprintf("sig.accepted:%v", err == nil && !p))
	st.inc(fmt.Sprintf("sig.ins=%d", len(ins)))
	term := fmt.Sprintf("(mkSigCase %s %s %s %s %s)", boolc(isfunc), slist(it), slist(ot), boolc(p), obs)
	text := fmt.Sprintf("sig func=%v ins=%v outs=%v", isfunc, ins, outs)
	return caseOut{Term: term, Text: text, Hash: text, Trivial: len(ins)+len(outs) < 1, Category: "sig"}
}

// ---------- stream vset (C15) ----------
var vsNames = []string{"a", "B", "cd", "Ef", "g", "HH", "a-b", "1a", "_x", "ä"}
var vsSubs = []string{"", "", "s", "t", "k=1", `a"b`, `a\qb`, `x y`}

func genVset(r *rng, idx int, st stats) caseOut {
	n := r.intn(6)
	var vals []am.Value
	usedN := map[string]bool{}
	usedT := map[string]bool{}
	tys := []int{0, 1, 2, 3, 10, 20, 22}
	for len(vals) < n {
		v := am.Value{Type: typeOfTid(tys[r.intn(len(tys))]), Subtype: vsSubs[r.intn(len(vsSubs))]}
		if r.chance(55) {
			v.Name = vsNames[r.intn(len(vsNames))]
			if usedN[strings.ToLower(v.Name)] {
				continue
			}
			usedN[strings.ToLower(v.Name)] = true
		} else {
			k := fmt.Sprintf("%v/%s", v.Type, v.Subtype)
			if usedT[k] {
				continue
			}
			usedT[k] = true
		}
		vals = append(vals, v)
	}
	var set *am.ValueSet
	var err error
	var named, typed, typedsub []string
	var values string
	roundtrip, sigok := true, true
	p, _ := withRecover(func() {
		set, err = am.NewValueSet(vals)
		if err != nil {
			panic(err)
		}
		values = ivsTerm(set.Values())
		opt := func(v *am.Value) string {
			if v == nil {
				return "None"
			}
			return fmt.Sprintf("(Some %s)", ivTerm(*v))
		}
		for _, nm := range vsNames {
			for _, q := range []string{nm, strings.ToLower(nm)} {
				named = append(named, fmt.Sprintf("(%s, %s)", str(q), opt(set.Named(q))))
			}
		}
		for _, t := range tys {
			typed = append(typed, fmt.Sprintf("(%s, %s)", z(t), opt(set.Typed(typeOfTid(t)))))
			for _, s := range vsSubs[1:] {
				typedsub = append(typedsub, fmt.Sprintf("(%s, %s, %s)", z(t), str(s), opt(set.TypedSubtype(typeOfTid(t), s))))
			}
		}
		// signature round trip: fill, render, load into a fresh identical set
		sig := set.Signature()
		if len(vals) > 0 && len(sig) != 1 {
			sigok = false
		}
		filled := map[int]interface{}{}
		for i, v := range set.Values() {
			var ptr *am.Value
			if v.Name != "" {
				ptr = set.Named(v.Name)
			} else {
				ptr = set.TypedSubtype(v.Type, v.Subtype)
			}
			if ptr == nil {
				roundtrip = false
				continue
			}
			if ptr.Name != v.Name { // TypedSubtype may have found a named value sharing type and subtype
				continue
			}
			val := reflect.New(v.Type).Elem()
			switch v.Type.Kind() {
			case reflect.Int:
				val.SetInt(int64(100 + i))
			case reflect.String:
				val.SetString(fmt.Sprint(100 + i))
			case reflect.Interface:
				if i%2 == 0 {
					// a caller naturally stores the concrete value
					val = reflect.ValueOf(T0(100 + i))
				} else {
					val.Set(reflect.ValueOf(T0(100 + i)))
				}
			case reflect.Struct:
				val.Field(0).SetInt(int64(100 + i))
			}
			ptr.Value = val
			filled[i] = val.Interface()
		}
		sv := set.SignatureValues()
		set2, err2 := am.NewValueSet(vals)
		if err2 != nil {
			panic(err2)
		}
		if len(vals) > 0 {
			if err := set2.FromSignature(sv); err != nil {
				panic(err)
			}
			for i, v := range set2.Values() {
				if want, ok := filled[i]; ok {
					if !v.Value.IsValid() || !reflect.DeepEqual(v.Value.Interface(), want) {
						roundtrip = false
					}
				}
			}
		}
	})
	var vt []string
	for _, v := range vals {
		vt = append(vt, ivTerm(v))
	}
	if p {
		values = "[]"
	}
	st.inc(fmt.Sprintf("vset.n=%d", n))
	term := fmt.Sprintf("(mkVsetCase %s %s %s %s %s %s %s %s)", slist(vt), boolc(p), values, slist(named), slist(typed), slist(typedsub), boolc(roundtrip), boolc(sigok))
	text := fmt.Sprintf("vset %v", vt)
	return caseOut{Term: term, Text: text, Hash: text, Trivial: n < 2, Category: "vset"}
}

// ---------- stream results (C17) ----------
func genResults(r *rng, idx int, st stats) caseOut {
	k := r.intn(5)
	kinds := make([]int, k) // 0 plain, 1 error iface, 2 concrete error type
	ids := make([]int, k)
	var outs []reflect.Type
	errObjs := map[int]error{}
	for i := 0; i < k; i++ {
		kinds[i] = []int{0, 0, 1, 2}[r.intn(4)]
		if i == k-1 && r.chance(45) {
			kinds[i] = 1
		}
		ids[i] = 0
		if !r.chance(35) {
			ids[i] = 10 + i
		}
		switch kinds[i] {
		case 0:
			outs = append(outs, tyOf[0])
			if ids[i] == 0 {
				ids[i] = 10 + i // plain values are never "nil"
			}
		case 1:
			outs = append(outs, errorType)
		case 2:
			outs = append(outs, reflect.TypeOf(&myErr{}))
		}
	}
	resolved := !r.chance(12)
	var ins []reflect.Type
	if !resolved {
		ins = []reflect.Type{tyOf[5]} // nothing supplies it
	}
	ft := reflect.FuncOf(ins, outs, false)
	fn := reflect.MakeFunc(ft, func(args []reflect.Value) []reflect.Value {
		res := make([]reflect.Value, k)
		for i := 0; i < k; i++ {
			switch kinds[i] {
			case 0:
				res[i] = mkVal(0, ids[i])
			case 1:
				if ids[i] == 0 {
					res[i] = reflect.Zero(errorType)
				} else {
					e := errors.New(fmt.Sprint("e", ids[i]))
					errObjs[ids[i]] = e
					res[i] = reflect.ValueOf(&e).Elem()
				}
			case 2:
				if ids[i] == 0 {
					res[i] = reflect.Zero(reflect.TypeOf(&myErr{}))
				} else {
					res[i] = reflect.ValueOf(&myErr{id: ids[i]})
				}
			}
		}
		return res
	})
	var ln int
	var gotOuts []int
	gotErr := 0
	p, _ := withRecover(func() {
		f, err := am.NewFunc(fn.Interface())
		if err != nil {
			panic(err)
		}
		res := f.Call(nullLog)
		ln = res.Len()
		for i := 0; i < ln; i++ {
			o := res.Out(i)
			switch x := o.(type) {
			case T0:
				gotOuts = append(gotOuts, int(x))
			case *myErr:
				if x == nil {
					gotOuts = append(gotOuts, 0)
				} else {
					gotOuts = append(gotOuts, x.id)
				}
			case error:
				id := -5
				for k, e := range errObjs {
					if e == x {
						id = k
					}
				}
				gotOuts = append(gotOuts, id)
			case nil:
				gotOuts = append(gotOuts, 0)
			default:
				gotOuts = append(gotOuts, -6)
			}
		}
		if e := res.Err(); e != nil {
			gotErr = -1
			for k, x := range errObjs {
				if x == e {
					gotErr = k
				}
			}
		}
	})
	var raw []string
	for i := 0; i < k; i++ {
		raw = append(raw, fmt.Sprintf("(mkRR %s %s)", []string{"RKPlain", "RKErrIface", "RKErrConcrete"}[kinds[i]], z(ids[i])))
	}
	st.inc(fmt.Sprintf("results.k=%d", k))
	st.inc(fmt.Sprintf("results.resolved=%v", resolved))
	term := fmt.Sprintf("(mkResCase %s %s %s %s %s %s)", slist(raw), boolc(resolved), boolc(p), z(ln), zlist(gotOuts), z(gotErr))
	text := fmt.Sprintf("results kinds=%v ids=%v resolved=%v", kinds, ids, resolved)
	return caseOut{Term: term, Text: text, Hash: text, Trivial: k < 1, Category: "results"}
}

func init() {
	hdr := "From ArgMapper Require Import Base Types ValueSet CheckValueSet.\n"
	register(&streamDef{name: "sig", header: hdr, typ: "sig_case", checker: "check_sig_all", gen: genSig})
	register(&streamDef{name: "vset", header: hdr, typ: "vset_case", checker: "check_vset_all", gen: genVset})
	register(&streamDef{name: "results", header: hdr, typ: "res_case", checker: "check_res_all", gen: genResults})
}

module harness

go 1.18

require (
	github.com/hashicorp/go-argmapper v0.0.0
	github.com/hashicorp/go-hclog v0.14.0
)

require (
	github.com/fatih/color v1.7.0 // indirect
	github.com/hashicorp/errwrap v1.0.0 // indirect
	github.com/hashicorp/go-multierror v1.1.0 // indirect
	github.com/mattn/go-colorable v0.1.4 // indirect
	github.com/mattn/go-isatty v0.0.10 // indirect
	golang.org/x/sys v0.0.0-20191008105621-543471e840be // indirect
)

replace github.com/hashicorp/go-argmapper => /repo

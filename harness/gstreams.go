package main

import (
	"fmt"
	"os"
	"runtime/debug"
	"sort"
	"strings"

	am "github.com/hashicorp/go-argmapper"
)

// hv is the vertex type used for the graph-layer streams: identity is the
// integer key, payload distinguishes Add from AddOverwrite.
type hv struct {
	key     int
	payload int
}

func (v *hv) Hashcode() interface{} { return v.key }

const (
	siteDijkPop  = "Graph.Dijkstra|pop"
	siteDfs      = "Graph.dfs|g.adjacencyOut[v]"
	siteKahnS    = "Graph.KahnSort|g.adjacencyIn"
	siteKahnM    = "Graph.KahnSort|g.adjacencyOut[n]"
	siteSccV     = "Graph.StronglyConnected|g.Vertices()"
	siteSccOut   = "stronglyConnected|g.OutEdges(v)"
	siteReachOut = "Func.reachTarget|g.OutEdges(target)"
	siteReachIn  = "Func.reachTarget|g.InEdges(v)"
	siteGenVerts = "argBuilder.graph|g.Vertices()"
)

var graphSites = map[string]int{siteDijkPop: 1, siteDfs: 2, siteKahnS: 3, siteKahnM: 4, siteSccV: 5, siteSccOut: 6}

// tapeInts renders the recorded tape restricted to the given sites, keys
// being ints.
func tapeInts(recs []am.VerifRec, sites map[string]int) string {
	var parts []string
	for _, r := range recs {
		id, ok := sites[r.Site]
		if !ok {
			continue
		}
		ks := make([]int, len(r.Keys))
		for i, k := range r.Keys {
			ks[i] = k.(int)
		}
		parts = append(parts, fmt.Sprintf("(%d%%N, %s)", id, zlist(ks)))
	}
	return slist(parts)
}

type edge struct{ a, b, w int }

func randGraph(r *rng, st stats, negOK bool, dag bool) (n int, edges []edge) {
	n = 1 + r.intn(9)
	if r.chance(10) {
		n = 10 + r.intn(3)
	}
	dens := []int{10, 25, 40, 60}[r.intn(4)]
	wsets := [][]int{{1}, {0, 1, 2, 5, 20}, {0, 1, 1, 2, 3}, {5, 1, 20}, {1000000000, 2000000000, 2100000000, 1, 0}, {1099511627776, 1099511627775, 1, 0, 3}}
	ws := wsets[r.intn(len(wsets))]
	if negOK && r.chance(50) {
		ws = []int{-1, 1, 5, 20, 0, -1, 1}
	} else if negOK && r.chance(30) {
		// outside the domain of the C18 theorem (sums exceed int64): model and
		// implementation must still wrap identically
		ws = []int{4611686018427387904, 4611686018427387903, 1, 0, 3}
	}
	for a := 0; a < n; a++ {
		for b := 0; b < n; b++ {
			if dag && a >= b {
				continue
			}
			if a == b && !r.chance(15) {
				continue
			}
			if r.chance(dens) {
				edges = append(edges, edge{a, b, ws[r.intn(len(ws))]})
			}
		}
	}
	if !negOK && len(edges) > 0 && r.chance(8) {
		// one very heavy edge: true distances reach 2^62 without any sum
		// leaving the int range (still inside the domain of theorem C18)
		for i := range edges {
			if edges[i].w > 1000 {
				edges[i].w = 3
			}
		}
		edges[r.intn(len(edges))].w = 4611686018427388004
	}
	return
}

func buildGraph(n int, edges []edge, perm []int) *am.VerifGraph {
	var g am.VerifGraph
	for i := 0; i < n; i++ {
		g.Add(&hv{key: perm[i], payload: perm[i]})
	}
	for _, e := range edges {
		g.AddEdgeWeighted(&hv{key: e.a}, &hv{key: e.b}, e.w)
	}
	return &g
}

func edgesTerm(edges []edge) string {
	parts := make([]string, len(edges))
	for i, e := range edges {
		parts[i] = fmt.Sprintf("(%s,%s,%s)", z(e.a), z(e.b), z(e.w))
	}
	return slist(parts)
}

func vkey(v am.VerifVertex) int {
	if v == nil {
		return -1
	}
	return v.(*hv).key
}

func identity(n int) []int {
	p := make([]int, n)
	for i := range p {
		p[i] = i
	}
	return p
}

func withRecover(f func()) (panicked bool, msg string) {
	defer func() {
		if e := recover(); e != nil {
			panicked = true
			msg = fmt.Sprint(e)
			if os.Getenv("VERIF_STACK") != "" {
				fmt.Fprintf(os.Stderr, "PANIC %v\n%s\n", e, debug.Stack())
			}
		}
	}()
	f()
	return
}

// ---------------- stream dijk (C18) ----------------
func genDijk(neg bool) func(r *rng, idx int, st stats) caseOut {
	return func(r *rng, idx int, st stats) caseOut {
		n, edges := randGraph(r, st, neg, false)
		src := r.intn(n)
		g := buildGraph(n, edges, identity(n))
		if len(edges) > 1 && r.chance(35) {
			// the graph was searched BEFORE its last edits, and the edits are made through a
			// reversed view: r.AddEdgeWeighted(b, a, w) is the edge a -> b, r.RemoveEdge(y, x)
			// removes x -> y; the recorded search must see the final graph
			k := 1 + r.intn(len(edges)-1)
			g = buildGraph(n, edges[:k], identity(n))
			x, y := r.intn(n), r.intn(n)
			temp := true
			for _, e := range edges {
				if e.a == x && e.b == y {
					temp = false // only a temporary edge that is in no version of the final graph
				}
			}
			if temp {
				g.AddEdgeWeighted(&hv{key: x}, &hv{key: y}, 0)
			}
			rv := g.Reverse()
			withRecover(func() { g.Dijkstra(&hv{key: src}) })
			withRecover(func() { rv.Dijkstra(&hv{key: src}) })
			for _, e := range edges[k:] {
				rv.AddEdgeWeighted(&hv{key: e.b}, &hv{key: e.a}, e.w)
			}
			if temp {
				rv.RemoveEdge(&hv{key: y}, &hv{key: x})
			}
			if r.chance(50) {
				g = rv.Reverse() // search through a view of the view
			}
		}
		if r.chance(25) {
			// a vertex was removed and added again (with its edges, in their original order)
			x := r.intn(n)
			g.Remove(&hv{key: x})
			g.Add(&hv{key: x, payload: x})
			for _, e := range edges {
				if e.a == x || e.b == x {
					g.AddEdgeWeighted(&hv{key: e.a}, &hv{key: e.b}, e.w)
				}
			}
		}
		if r.chance(40) {
			// edges added to a COPY must not show up in the graph that is searched
			cp := g.Copy()
			for i := 0; i < 3; i++ {
				cp.AddEdgeWeighted(&hv{key: r.intn(n)}, &hv{key: r.intn(n)}, 0)
			}
		}
		am.VerifOrdReset(r.next(), true)
		var dist map[interface{}]int
		var prev map[interface{}]am.VerifVertex
		panicked, _ := withRecover(func() { dist, prev = g.Dijkstra(&hv{key: src}) })
		tape := am.VerifOrdTape()
		am.VerifOrdReset(0, false)
		var ds, ps, paths []string
		reach := 0
		if !panicked {
			for v := 0; v < n; v++ {
				ds = append(ds, fmt.Sprintf("(%s,%s)", z(v), z(dist[v])))
				ps = append(ps, fmt.Sprintf("(%s,%s)", z(v), z(vkey(prev[v]))))
				var path []am.VerifVertex
				// a cyclic predecessor chain would make EdgeToPath loop forever:
				// detect it with a bounded walk and report it as path [-3]
				cur, steps := am.VerifVertex(g.Vertex(v)), 0
				for cur != nil && steps <= n+1 {
					cur = prev[am.VerifVertexID(cur)]
					steps++
				}
				if steps > n+1 {
					paths = append(paths, "[(-3)]")
					continue
				}
				pp, _ := withRecover(func() { path = g.EdgeToPath(g.Vertex(v), prev) })
				if pp {
					paths = append(paths, "[(-2)]")
					continue
				}
				ks := make([]int, len(path))
				for i, x := range path {
					ks[i] = vkey(x)
				}
				paths = append(paths, zlist(ks))
				if len(ks) > 1 {
					reach++
				}
			}
		}
		term := fmt.Sprintf("(mkDijkCase %s %s %s %s %s %s %s %s)", z(n), edgesTerm(edges), z(src),
			tapeInts(tape, graphSites), boolc(panicked), slist(ds), slist(ps), slist(paths))
		st.inc(fmt.Sprintf("dijk.n=%d", n))
		st.inc(fmt.Sprintf("dijk.reach>=2:%v", reach >= 2))
		text := fmt.Sprintf("dijkstra n=%d src=%d edges=%v", n, src, edges)
		return caseOut{Term: term, Text: text, Hash: text, Trivial: reach < 2, Category: "dijk"}
	}
}

// ---------------- stream hist (C19) ----------------
func genHist(r *rng, idx int, st stats) caseOut {
	nops := 3 + r.intn(38)
	nkeys := 2 + r.intn(5)
	var graphs []*am.VerifGraph
	var ops []string
	var txt []string
	graphs = append(graphs, new(am.VerifGraph))
	ops = append(ops, "ONew")
	txt = append(txt, "new")
	panicAt := -1
	payload := 100
	for i := 0; i < nops && panicAt < 0; i++ {
		h := r.intn(len(graphs))
		g := graphs[h]
		k1, k2 := r.intn(nkeys), r.intn(nkeys)
		var op, t string
		var run func()
		if r.chance(4) {
			// drain the graph through this handle: every vertex is removed (views stay attached)
			for k := 0; k < nkeys && panicAt < 0; k++ {
				k := k
				ops = append(ops, fmt.Sprintf("(ORemove %d%%nat %s)", h, z(k)))
				txt = append(txt, fmt.Sprintf("remove h%d k%d", h, k))
				if p, _ := withRecover(func() { g.Remove(&hv{key: k}) }); p {
					panicAt = len(ops) - 1
				}
			}
			continue
		}
		c := r.intn(100)
		switch {
		case c < 22:
			payload++
			p := payload
			op, t = fmt.Sprintf("(OAdd %d%%nat %s %s)", h, z(k1), z(p)), fmt.Sprintf("add h%d k%d p%d", h, k1, p)
			run = func() { g.Add(&hv{key: k1, payload: p}) }
		case c < 30:
			payload++
			p := payload
			op, t = fmt.Sprintf("(OAddOverwrite %d%%nat %s %s)", h, z(k1), z(p)), fmt.Sprintf("addow h%d k%d p%d", h, k1, p)
			run = func() { g.AddOverwrite(&hv{key: k1, payload: p}) }
		case c < 40:
			op, t = fmt.Sprintf("(ORemove %d%%nat %s)", h, z(k1)), fmt.Sprintf("remove h%d k%d", h, k1)
			run = func() { g.Remove(&hv{key: k1}) }
		case c < 70:
			w := []int{1, 1, 2, 5, 20, -1, 0, 7}[r.intn(8)]
			op, t = fmt.Sprintf("(OAddEdge %d%%nat %s %s %s)", h, z(k1), z(k2), z(w)), fmt.Sprintf("edge h%d %d->%d w%d", h, k1, k2, w)
			if w == 1 && r.chance(50) {
				run = func() { g.AddEdge(&hv{key: k1}, &hv{key: k2}) }
			} else {
				run = func() { g.AddEdgeWeighted(&hv{key: k1}, &hv{key: k2}, w) }
			}
		case c < 80:
			op, t = fmt.Sprintf("(ORemoveEdge %d%%nat %s %s)", h, z(k1), z(k2)), fmt.Sprintf("rmedge h%d %d->%d", h, k1, k2)
			run = func() { g.RemoveEdge(&hv{key: k1}, &hv{key: k2}) }
		case c < 86 && len(graphs) < 5:
			op, t = fmt.Sprintf("(OCopy %d%%nat)", h), fmt.Sprintf("copy h%d", h)
			run = func() { graphs = append(graphs, g.Copy()) }
		case c < 92 && len(graphs) < 5:
			op, t = fmt.Sprintf("(OReverse %d%%nat)", h), fmt.Sprintf("reverse h%d", h)
			run = func() { graphs = append(graphs, g.Reverse()) }
		case c < 95 && len(graphs) < 5:
			op, t = "ONew", "new"
			run = func() { graphs = append(graphs, new(am.VerifGraph)) }
		default:
			op, t = fmt.Sprintf("(OVertex %d%%nat %s)", h, z(k1)), fmt.Sprintf("vertex h%d k%d", h, k1)
			run = func() { g.Vertex(k1); g.Vertices(); g.OutEdges(&hv{key: k1}); g.InEdges(&hv{key: k1}) } // reads in the middle of a history change nothing
		}
		ops = append(ops, op)
		txt = append(txt, t)
		if p, _ := withRecover(run); p {
			panicAt = len(ops) - 1
		}
	}
	// observe every handle through the API (no init()-calling accessors)
	var obs []string
	nontrivial := 0
	if panicAt < 0 {
		for h, g := range graphs {
			var vs []string
			vl := g.Vertices()
			sort.Slice(vl, func(i, j int) bool { return vkey(vl[i]) < vkey(vl[j]) })
			for _, v := range vl {
				vs = append(vs, fmt.Sprintf("(%s,%s)", z(vkey(v)), z(v.(*hv).payload)))
			}
			var es []string
			for k := 0; k < nkeys; k++ {
				var outs, ins []int
				for _, v := range g.OutEdges(&hv{key: k}) {
					outs = append(outs, vkey(v))
				}
				for _, v := range g.InEdges(&hv{key: k}) {
					ins = append(ins, vkey(v))
				}
				if len(outs) > 0 {
					nontrivial++
				}
				es = append(es, fmt.Sprintf("(%s,%s,%s)", z(k), zlist(sortedCopy(outs)), zlist(sortedCopy(ins))))
			}
			ao, ai := am.VerifAdjacency(g)
			dump := func(m map[interface{}]map[interface{}]int) string {
				var ws []string
				for a, inner := range m {
					for b, w := range inner {
						ws = append(ws, fmt.Sprintf("(%s,%s,%s)", z(a.(int)), z(b.(int)), z(w)))
					}
				}
				sort.Strings(ws)
				return slist(ws)
			}
			var okeys, ikeys []int
			for a := range ao {
				okeys = append(okeys, a.(int))
			}
			for a := range ai {
				ikeys = append(ikeys, a.(int))
			}
			obs = append(obs, fmt.Sprintf("(mkHObs %d%%nat %s %s %s %s %s %s)", h, slist(vs), slist(es), dump(ao), dump(ai), zlist(sortedCopy(okeys)), zlist(sortedCopy(ikeys))))
		}
	}
	term := fmt.Sprintf("(mkHistCase %s %s %s %s)", slist(ops), z(panicAt), z(nkeys), slist(obs))
	text := strings.Join(txt, "; ")
	st.inc(fmt.Sprintf("hist.handles=%d", len(graphs)))
	st.inc(fmt.Sprintf("hist.panic:%v", panicAt >= 0))
	return caseOut{Term: term, Text: text, Hash: text, Trivial: nontrivial < 2, Category: "hist"}
}

// ---------------- stream trav (C20) ----------------
func genTrav(r *rng, idx int, st stats) caseOut {
	dag := r.chance(55)
	n, edges := randGraph(r, st, false, dag)
	perm := identity(n)
	if dag && r.chance(60) {
		// single root: connect vertex 0 to every vertex without in-edge
		hasIn := make([]bool, n)
		for _, e := range edges {
			hasIn[e.b] = true
		}
		for v := 1; v < n; v++ {
			if !hasIn[v] {
				edges = append(edges, edge{0, v, []int{0, 1, 2, 5}[r.intn(4)]})
			}
		}
	}
	g := buildGraph(n, edges, perm)
	if r.chance(35) {
		// edges added to a COPY must not show up in the graph that is traversed
		cp := g.Copy()
		for i := 0; i < 3; i++ {
			cp.AddEdge(&hv{key: r.intn(n)}, &hv{key: r.intn(n)})
		}
	}
	if r.chance(35) {
		// the graph was already listed and analysed, then vertices were replaced by
		// equal ones (same identity, another Go value)
		withRecover(func() { g.Vertices(); g.StronglyConnected() })
		for i := 0; i < 2; i++ {
			k := r.intn(n)
			g.AddOverwrite(&hv{key: perm[k], payload: perm[k]})
		}
	}
	start := r.intn(n)
	var desc, stop []int
	dmode := r.intn(3)
	for v := 0; v < n; v++ {
		if dmode == 0 || (dmode == 1 && r.chance(70)) || (dmode == 2 && r.chance(35)) {
			desc = append(desc, v)
		}
		if r.chance(4) {
			stop = append(stop, v)
		}
	}
	inSet := func(xs []int, k int) bool {
		for _, x := range xs {
			if x == k {
				return true
			}
		}
		return false
	}
	// DFS
	am.VerifOrdReset(r.next(), true)
	var reported []int
	aborted := false
	dfsPanic, _ := withRecover(func() {
		err := g.DFS(&hv{key: start}, func(v am.VerifVertex, next func() error) error {
			k := vkey(v)
			reported = append(reported, k)
			if inSet(stop, k) {
				return fmt.Errorf("stop")
			}
			if inSet(desc, k) {
				return next()
			}
			return nil
		})
		aborted = err != nil
	})
	dfsTape := am.VerifOrdTape()
	// Kahn
	am.VerifOrdReset(r.next(), true)
	var order []int
	var L am.VerifTopoOrder
	kahnPanic, _ := withRecover(func() {
		L = g.KahnSort()
		for _, v := range L {
			order = append(order, vkey(v))
		}
	})
	kahnTape := am.VerifOrdTape()
	// SCC
	am.VerifOrdReset(r.next(), true)
	var sccs []string
	sccPanic, _ := withRecover(func() {
		for _, c := range g.StronglyConnected() {
			ks := make([]int, len(c))
			for i, v := range c {
				ks[i] = vkey(v)
			}
			sccs = append(sccs, zlist(ks))
		}
	})
	sccTape := am.VerifOrdTape()
	// TopoShortestPath vs Dijkstra (only when Kahn succeeded)
	var td, dd []string
	var dijkTape []am.VerifRec
	tspRoot := -1
	if !kahnPanic && len(L) > 0 {
		am.VerifOrdReset(r.next(), true)
		withRecover(func() {
			dist, prev := g.TopoShortestPath(L)
			for v := 0; v < n; v++ {
				d, ok := dist[v]
				if !ok {
					td = append(td, fmt.Sprintf("(%s,None,%s)", z(v), z(vkey(prev[v]))))
				} else {
					td = append(td, fmt.Sprintf("(%s,Some %s,%s)", z(v), z(d), z(vkey(prev[v]))))
				}
			}
		})
		tspRoot = order[0]
		am.VerifOrdReset(r.next(), true)
		withRecover(func() {
			dist, _ := g.Dijkstra(L[0])
			for v := 0; v < n; v++ {
				dd = append(dd, fmt.Sprintf("(%s,%s)", z(v), z(dist[v])))
			}
		})
		dijkTape = am.VerifOrdTape()
	}
	am.VerifOrdReset(0, false)
	term := fmt.Sprintf("(mkTravCase %s %s %s %s %s %s %s %s %s %s %s %s %s %s %s %s %s %s)",
		z(n), edgesTerm(edges), z(start), zlist(desc), zlist(stop),
		tapeInts(dfsTape, graphSites), boolc(dfsPanic), zlist(reported), boolc(aborted),
		tapeInts(kahnTape, graphSites), boolc(kahnPanic), zlist(order),
		tapeInts(sccTape, graphSites), boolc(sccPanic), slist(sccs),
		z(tspRoot), slist(td), fmt.Sprintf("(%s, %s)", tapeInts(dijkTape, graphSites), slist(dd)))
	st.inc(fmt.Sprintf("trav.n=%d", n))
	st.inc(fmt.Sprintf("trav.cyclic:%v", kahnPanic))
	st.inc(fmt.Sprintf("trav.sccs>1elem:%v", func() bool {
		for _, s := range sccs {
			if strings.Contains(s, ";") {
				return true
			}
		}
		return false
	}()))
	text := fmt.Sprintf("trav n=%d start=%d desc=%v stop=%v edges=%v", n, start, desc, stop, edges)
	return caseOut{Term: term, Text: text, Hash: text, Trivial: len(edges) < 2, Category: "trav"}
}

func init() {
	hdr := "From ArgMapper Require Import Base Graph GraphAlg GraphHist CheckGraph.\n"
	register(&streamDef{name: "dijk", header: hdr, typ: "dijk_case", checker: "check_dijk_all", gen: genDijk(false)})
	register(&streamDef{name: "dijkneg", header: hdr, typ: "dijk_case", checker: "check_dijkneg_all", gen: genDijk(true)})
	register(&streamDef{name: "hist", header: hdr, typ: "hist_case", checker: "check_hist_all", gen: genHist})
	register(&streamDef{name: "trav", header: hdr, typ: "trav_case", checker: "check_trav_all", gen: genTrav})
}

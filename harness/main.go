// harness: generates scenarios for one stream, runs them against the real
// library (built from the current /repo working tree, with the order
// instrumentation when built with the overlay) and writes Coq case files
// in which the model is evaluated on the same inputs and tapes.
package main

import (
	"encoding/json"
	"flag"
	"fmt"
	"os"
	"path/filepath"
	"strings"
)

type caseOut struct {
	Term     string // Coq term of the stream's case type
	Text     string // human-readable description (replay / samples)
	Hash     string // canonical text for distinctness
	Trivial  bool
	Category string
}

type streamDef struct {
	name    string
	header  string // Coq: Require lines
	typ     string // Coq type of a case
	checker string // Coq function : list typ -> list (Z * Z)
	gen     func(r *rng, idx int, st stats) caseOut
}

var streams = map[string]*streamDef{}

func register(s *streamDef) { streams[s.name] = s }

func main() {
	stream := flag.String("stream", "", "stream name")
	seed := flag.Uint64("seed", 1, "seed")
	n := flag.Int("n", 100, "number of cases")
	shards := flag.Int("shards", 1, "number of case files")
	out := flag.String("out", "", "output directory")
	only := flag.Int("only", -1, "generate only case with this index (replay)")
	checker := flag.String("checker", "", "Coq checker term (default: the stream's full correspondence)")
	flag.Parse()
	sd := streams[*stream]
	if sd == nil || *out == "" {
		fmt.Fprintf(os.Stderr, "unknown stream %q or missing -out\n", *stream)
		os.Exit(2)
	}
	os.MkdirAll(*out, 0o755)
	if *checker != "" {
		sd.checker = *checker
	}
	st := stats{}
	cases := make([]caseOut, 0, *n)
	idxs := make([]int, 0, *n)
	for i := 0; i < *n; i++ {
		if *only >= 0 && i != *only {
			continue
		}
		r := newRng(*seed*1000003 + uint64(i)*7919 + 17)
		c := sd.gen(r, i, st)
		cases = append(cases, c)
		idxs = append(idxs, i)
	}
	per := (len(cases) + *shards - 1) / *shards
	if per == 0 {
		per = 1
	}
	type meta struct {
		Index    int    `json:"index"`
		Shard    int    `json:"shard"`
		Text     string `json:"text"`
		Hash     string `json:"hash"`
		Trivial  bool   `json:"trivial"`
		Category string `json:"category"`
	}
	var metas []meta
	for sh := 0; sh*per < len(cases); sh++ {
		lo, hi := sh*per, (sh+1)*per
		if hi > len(cases) {
			hi = len(cases)
		}
		var b strings.Builder
		b.WriteString(sd.header)
		b.WriteString("\nLocal Open Scope Z_scope.\n")
		fmt.Fprintf(&b, "Definition cases : list (Z * %s) := [\n", sd.typ)
		for i := lo; i < hi; i++ {
			sep := ";"
			if i == hi-1 {
				sep = ""
			}
			fmt.Fprintf(&b, "  (%d, %s)%s\n", idxs[i], cases[i].Term, sep)
			metas = append(metas, meta{idxs[i], sh, cases[i].Text, cases[i].Hash, cases[i].Trivial, cases[i].Category})
		}
		b.WriteString("].\n")
		fmt.Fprintf(&b, "Definition result := Eval vm_compute in (%s cases).\n", sd.checker)
		b.WriteString("Print result.\n")
		fn := filepath.Join(*out, fmt.Sprintf("cases_%s_%d.v", sd.name, sh))
		if err := os.WriteFile(fn, []byte(b.String()), 0o644); err != nil {
			panic(err)
		}
	}
	mj, _ := json.Marshal(map[string]interface{}{"stream": sd.name, "seed": *seed, "cases": metas, "stats": st})
	os.WriteFile(filepath.Join(*out, "meta_"+sd.name+".json"), mj, 0o644)
}

package main

import (
	"fmt"
	"os"
	"strings"
	"sync/atomic"
)

// ---------------- scenario generators ----------------
var nameAlphabet = []string{"a", "b", "c", "d", "ä"}
var subAlphabet = []string{"", "", "", "", "", "s", "t", "S", "k=1", "k=2"}

type gctx struct {
	r       *rng
	sc      *Scenario
	nextFid int
	serial  int
	st      stats
	noSub   bool // C08 domain: no subtypes
	noIface bool
	built   bool    // some functions are assembled with BuildFunc
	derived []Field // requirements already made derivable through a converter
	noExtra bool    // only the named int types
	zeroUsed bool // at most ONE zero value per scenario (values are identified by their serial)
	repSub  bool    // type-only struct fields may repeat a type when their subtypes differ
}

func (c *gctx) sub() string {
	if c.noSub {
		return ""
	}
	return subAlphabet[c.r.intn(len(subAlphabet))]
}
func (c *gctx) ty() int {
	if !c.noIface && c.r.chance(12) {
		return ifaceTys[c.r.intn(2)]
	}
	if !c.noExtra && c.r.chance(10) {
		return extraTys[c.r.intn(len(extraTys))]
	}
	return concreteTys[c.r.intn(len(concreteTys))]
}
func (c *gctx) cty() int { return concreteTys[c.r.intn(len(concreteTys))] }

func (c *gctx) field(form int) Field {
	if form == FPos {
		return Field{Ty: c.ty()}
	}
	f := Field{Ty: c.ty(), Sub: c.sub()}
	if c.r.chance(55) {
		f.Name = nameAlphabet[c.r.intn(len(nameAlphabet))]
	}
	return f
}

// fields with distinct names and distinct type-only types (well-formed)
func (c *gctx) fields(form int, n int) []Field {
	var fs []Field
	for tries := 0; len(fs) < n && tries < 20; tries++ {
		f := c.field(form)
		dup := false
		for _, g := range fs {
			if f.Name != "" && g.Name == f.Name {
				dup = true
			}
			if f.Name == "" && g.Name == "" && g.Ty == f.Ty && form != FPos && (g.Sub == f.Sub || !c.repSub) {
				dup = true
			}
		}
		if !dup {
			fs = append(fs, f)
		}
	}
	return fs
}

func (c *gctx) form() int { return []int{FPos, FPos, FStruct, FStruct, FPtr}[c.r.intn(5)] }

func (c *gctx) addFunc(in, out []Field, inForm, outForm int) int {
	d := &FnDecl{ID: c.nextFid, InForm: inForm, In: in, OutForm: outForm, Out: out}
	c.nextFid++
	d.Err = c.r.chance(35)
	d.Once = c.r.chance(8)
	if len(in) == 0 {
		d.InForm = FPos
	}
	if len(out) == 0 {
		d.OutForm = FPos
	}
	dupName := func(fs []Field) bool {
		seen := map[string]bool{}
		for _, f := range fs {
			if f.Name != "" && seen[f.Name] {
				return true
			}
			seen[f.Name] = true
		}
		return false
	}
	// NewValueSet needs distinct names (it builds a struct with one field per name)
	if c.built && c.r.chance(35) && (len(in) > 0 || len(out) > 0) && !dupName(in) && !dupName(out) && addressable(in) && addressable(out) {
		// a function assembled with BuildFunc: struct in, struct out, error
		d.Built, d.InForm, d.OutForm, d.Err = true, FStruct, FStruct, true
	}
	c.sc.Funcs = append(c.sc.Funcs, d)
	return len(c.sc.Funcs) - 1
}

// every type-only value of a set must have an accessor: Typed(t) when it is the only
// type-only value of its type, else TypedSubtype(t, st) when no other value shares both
func addressable(fs []Field) bool {
	for _, f := range fs {
		if f.Name != "" {
			continue
		}
		sameTy, sameBoth := 0, 0
		for _, g := range fs {
			if g.Name == "" && g.Ty == f.Ty {
				sameTy++
			}
			if g.Ty == f.Ty && g.Sub == f.Sub {
				sameBoth++
			}
		}
		if sameTy > 1 && sameBoth > 1 {
			return false
		}
	}
	return true
}

func posOK(fs []Field) bool {
	for _, f := range fs {
		if f.Name != "" || f.Sub != "" {
			return false
		}
	}
	return true
}

func (c *gctx) formFor(fs []Field) int {
	if posOK(fs) && c.r.chance(60) {
		return FPos
	}
	if c.r.chance(25) {
		return FPtr
	}
	return FStruct
}

func (c *gctx) val(ty int) *Val {
	c.serial++
	t := ty
	if cc, ok := carrier[ty]; ok {
		t = cc
	} else if c.r.chance(8) && !c.zeroUsed {
		// the zero value of the type (0, nil pointer, nil slice ...) is a value like any other
		c.zeroUsed = true
		return &Val{Serial: 0, Ty: t}
	}
	return &Val{Serial: c.serial, Ty: t}
}

// an option supplying a value that matches field f exactly
func (c *gctx) exactOpt(f Field) Opt {
	v := c.val(f.Ty)
	switch {
	case f.Name != "" && f.Sub != "":
		return Opt{Kind: "namedsub", Name: c.casing(f.Name), Sub: f.Sub, Vals: []*Val{v}}
	case f.Name != "":
		if c.r.chance(12) {
			// documented as equivalent to Named
			return Opt{Kind: "namedsub", Name: c.casing(f.Name), Sub: "", Vals: []*Val{v}}
		}
		return Opt{Kind: "named", Name: c.casing(f.Name), Vals: []*Val{v}}
	case f.Sub != "":
		if c.r.chance(25) {
			// documented as equivalent to TypedSubtype
			return Opt{Kind: "namedsub", Name: "", Sub: f.Sub, Vals: []*Val{v}}
		}
		return Opt{Kind: "typedsub", Sub: f.Sub, Vals: []*Val{v}}
	default:
		if c.r.chance(15) {
			return Opt{Kind: "named", Name: "", Vals: []*Val{v}} // documented as equivalent to Typed
		}
		if c.r.chance(12) {
			return Opt{Kind: "typedsub", Sub: "", Vals: []*Val{v}} // documented as equivalent to Typed
		}
		return Opt{Kind: "typed", Vals: []*Val{v}}
	}
}

func (c *gctx) casing(n string) string {
	if c.r.chance(20) {
		return strings.ToUpper(n)
	}
	return n
}

func (c *gctx) randomOpt() Opt {
	f := c.field(FStruct)
	if cc, ok := carrier[f.Ty]; ok {
		f.Ty = cc
	}
	return c.exactOpt(f)
}

// make field f derivable: returns options and possibly adds converters.
// depth bounds the conversion chain length.
func (c *gctx) derive(f Field, depth int, convs *[]int) []Opt {
	if depth == 0 || c.r.chance(40) {
		// supply directly (exact) or through a compatible label
		if _, isIface := carrier[f.Ty]; isIface || c.r.chance(70) {
			return []Opt{c.exactOpt(f)}
		}
		g := f
		switch c.r.intn(4) {
		case 0:
			if f.Name == "" {
				g.Name = nameAlphabet[c.r.intn(len(nameAlphabet))]
			}
		case 1:
			if f.Sub == "" && !c.noSub {
				g.Sub = "s"
			}
		case 2:
			if f.Name != "" {
				g.Name = ""
				if c.r.chance(40) {
					g.Sub = "" // a named parameter WITH a subtype also takes an unlabelled typed value of its type
				}
			}
		}
		return []Opt{c.exactOpt(g)}
	}
	// a converter producing f from 0..2 inputs
	nin := []int{0, 1, 1, 1, 1, 2, 2, 3}[c.r.intn(8)]
	in := c.fields(FStruct, nin)
	shared := map[int]bool{}
	forceNamed := map[int]bool{}
	if len(c.derived) > 0 && c.r.chance(35) {
		// one input is a requirement that is ALREADY derivable through another
		// converter of this scenario: that converter is then needed on two paths
		g := c.derived[c.r.intn(len(c.derived))]
		if _, isIface := carrier[g.Ty]; !isIface && c.r.chance(50) {
			// ... consumed through a DIFFERENT vertex: by type where it was required by name, and
			// under another name where it was required by type
			if g.Name != "" {
				g.Name = ""
			} else {
				g.Name = nameAlphabet[c.r.intn(len(nameAlphabet))]
			}
		}
		dup := g.Name == f.Name && g.Ty == f.Ty && g.Sub == f.Sub
		for _, x := range in {
			if (x.Name != "" && x.Name == g.Name) || (x.Name == "" && g.Name == "" && x.Ty == g.Ty) {
				dup = true
			}
		}
		if !dup {
			in = append(in, g)
			shared[len(in)-1] = true
		}
	} else if len(*convs) > 0 && c.r.chance(20) {
		// one input is something an earlier converter of this scenario already
		// produces: that converter is then needed on several paths
		d := c.sc.Funcs[(*convs)[c.r.intn(len(*convs))]]
		if len(d.Out) > 0 {
			g := d.Out[c.r.intn(len(d.Out))]
			dup := false
			for _, x := range in {
				if (x.Name != "" && x.Name == g.Name) || (x.Name == "" && g.Name == "" && x.Ty == g.Ty) {
					dup = true
				}
			}
			if !dup && !(g.Name == f.Name && g.Ty == f.Ty && g.Sub == f.Sub) {
				in = append(in, g)
				shared[len(in)-1] = true
			}
		}
	}
	if c.repSub && c.r.chance(40) {
		// a type-only sibling input that differs only by its subtype and is NOT supplied
		for i, x := range in {
			if _, isIface := carrier[x.Ty]; x.Name == "" && !isIface {
				sib := Field{Ty: x.Ty, Sub: map[string]string{"": "s", "s": "", "t": "", "k=1": "k=2", "k=2": "k=1"}[x.Sub]}
				in = append(in, sib)
				shared[len(in)-1] = true
				if c.r.chance(60) {
					forceNamed[i] = true
				}
				break
			}
		}
	}
	out := []Field{f}
	if _, isIface := carrier[f.Ty]; isIface && f.Ty != 12 && c.r.chance(50) {
		// the converter returns an IMPLEMENTATION of the required interface type
		impls := map[int][]int{10: {0, 1, 3, 11}, 11: {1}}[f.Ty]
		if len(impls) > 0 {
			g := f
			g.Ty = impls[c.r.intn(len(impls))]
			if g.Name == "" {
				out = []Field{g}
			}
		}
	}
	if f.Name != "" && f.Sub == "" && !c.noSub && c.r.chance(12) {
		// the named requirement is produced under a SUBTYPE label (name/T/"" takes from name/T/s)
		out = []Field{{Name: f.Name, Ty: out[0].Ty, Sub: "s"}}
	} else if c.r.chance(10) {
		// a sibling result of the same type: named before type-only
		g := out[0]
		if g.Name == "" {
			out = []Field{{Name: nameAlphabet[c.r.intn(len(nameAlphabet))], Ty: g.Ty, Sub: g.Sub}, g}
		} else if c.r.chance(50) {
			out = []Field{g, {Ty: g.Ty, Sub: g.Sub}}
		} else {
			// the named requirement can only be fed by the type-only result that FOLLOWS a
			// result of the same type under another name
			other := nameAlphabet[c.r.intn(len(nameAlphabet))]
			if other != g.Name {
				out = []Field{{Name: other, Ty: g.Ty, Sub: g.Sub}, {Ty: g.Ty, Sub: g.Sub}}
			}
		}
	} else if c.r.chance(12) && !c.noSub {
		// a second result of the same type (or name) that differs only by its subtype
		g := f
		g.Sub = map[string]string{"": "s", "s": "t", "t": "s"}[f.Sub]
		if c.r.chance(50) {
			out = []Field{g, f}
		} else {
			out = []Field{f, g}
		}
	} else if c.r.chance(25) {
		out = append(out, c.fields(FStruct, 1)...)
		if len(out) == 2 && ((out[1].Name != "" && out[1].Name == f.Name) || (out[1].Name == "" && f.Name == "" && out[1].Ty == f.Ty)) {
			out = out[:1]
		}
	}
	if posOK(in) && c.r.chance(30) {
		// positional inputs may repeat a type
		if len(in) > 0 && c.r.chance(30) {
			in = append(in, in[0])
		}
	}
	fi := c.addFunc(in, out, c.formFor(in), c.formFor(out))
	*convs = append(*convs, fi)
	c.derived = append(c.derived, f)
	var opts []Opt
	for i, g := range in {
		if shared[i] {
			continue // already derivable through the earlier converter
		}
		if forceNamed[i] {
			// only a NAMED value of the type is supplied
			h := g
			h.Name = nameAlphabet[c.r.intn(len(nameAlphabet))]
			opts = append(opts, c.exactOpt(h))
			continue
		}
		opts = append(opts, c.derive(g, depth-1, convs)...)
	}
	return opts
}

func (c *gctx) convOpts(convs []int) []Opt {
	var opts []Opt
	// split converters over several options, raw or *Func
	i := 0
	for i < len(convs) {
		n := 1 + c.r.intn(3)
		if i+n > len(convs) {
			n = len(convs) - i
		}
		kind := "conv"
		if c.r.chance(40) {
			kind = "convfunc"
		}
		opts = append(opts, Opt{Kind: kind, Fns: append([]int(nil), convs[i:i+n]...)})
		i += n
	}
	return opts
}

func shuffleOpts(r *rng, opts []Opt) {
	for i := len(opts) - 1; i > 0; i-- {
		j := r.intn(i + 1)
		opts[i], opts[j] = opts[j], opts[i]
	}
}

// general call scenario
func genCallScenario(c *gctx, class int) {
	r := c.r
	np := []int{0, 1, 1, 2, 2, 3}[r.intn(6)]
	tin := c.fields(FStruct, np)
	if r.chance(15) && posOK(tin) && len(tin) > 0 {
		tin = append(tin, tin[0]) // repeated positional type
	}
	hopelessPair := -1
	if c.repSub && class == 0 && r.chance(25) {
		// two type-only parameters of one type that differ only by subtype, BOTH hopeless
		T := c.cty()
		free := true
		for _, f := range tin {
			if f.Name == "" && f.Ty == T {
				free = false
			}
		}
		if free {
			hopelessPair = len(tin)
			tin = append(tin, Field{Ty: T, Sub: "s"}, Field{Ty: T, Sub: "t"})
		}
	}
	tout := c.fields(FStruct, r.intn(3))
	sameSet := c.built && hopelessPair < 0 && len(tin) > 0 && addressable(tin) && r.chance(10)
	if sameSet {
		tout = tin
	}
	ti := c.addFunc(tin, tout, c.formFor(tin), c.formFor(tout))
	c.sc.Funcs[ti].Once = false
	if c.sc.Funcs[ti].OutForm == FPtr {
		c.sc.Funcs[ti].OutForm = FStruct
	}
	if sameSet {
		// BuildFunc(set, set, cb): one value set object is input and output
		d := c.sc.Funcs[ti]
		d.Built, d.InForm, d.OutForm, d.Err, d.SameSet = true, FStruct, FStruct, true, true
	}
	var convs []int
	var opts []Opt
	for fi, f := range tin {
		if hopelessPair >= 0 && (fi == hopelessPair || fi == hopelessPair+1) {
			continue
		}
		switch {
		case class == 1: // exact matches for everything (C03)
			o := c.exactOpt(f)
			if f.Name != "" && r.chance(12) && len(o.Vals) == 1 && o.Vals[0] != nil && !c.zeroUsed {
				o.Vals[0].Serial = 0 // the zero value of the type is a value like any other
				c.zeroUsed = true
			}
			opts = append(opts, o)
			if f.Name != "" && !c.noSub && r.chance(20) {
				// a same-named input with a subtype and a converter from it: a tempting detour
				if _, isIface := carrier[f.Ty]; !isIface {
					src := Field{Name: f.Name, Ty: c.cty(), Sub: "s"}
					if src.Ty != f.Ty {
						opts = append(opts, c.exactOpt(src))
						convs = append(convs, c.addFunc([]Field{{Name: f.Name, Ty: src.Ty}}, []Field{{Name: f.Name, Ty: f.Ty, Sub: f.Sub}}, FStruct, FStruct))
					}
				}
			}
		case r.chance(12): // hopeless / left to chance
			if r.chance(60) {
				// ... but a value with the same label and ANOTHER type is supplied (an
				// assignable one where the universe has it: chan int for <-chan int)
				at := -1
				switch {
				case f.Ty == 13:
					at = 9
				case f.Ty == 16:
					at = 17 // time.Duration for a parameter of the local type Duration
				case f.Ty == 17:
					at = 16
				case f.Ty == 15:
					at = 7 // an unnamed []int for a parameter of the named slice type
				case f.Ty == 7 && r.chance(50):
					at = 15
				case f.Ty == 7 || f.Ty == 8 || f.Ty == 9 || f.Ty == 14:
					at = []int{7, 8, 9, 13}[r.intn(4)]
				case f.Ty == 10 || f.Ty == 11:
					at = []int{2, 4, 5}[r.intn(3)]
				default:
					at = c.cty()
				}
				if at != f.Ty {
					sub := f.Sub
					if sub == "" && f.Name != "" && !c.noSub && r.chance(40) {
						sub = "s" // a plain named parameter also takes from same-named values WITH a subtype (of its type only)
					}
					opts = append(opts, c.exactOpt(Field{Name: f.Name, Ty: at, Sub: sub}))
				}
			}
		default:
			opts = append(opts, c.derive(f, 1+r.intn(3), &convs)...)
		}
	}
	// distractors: converters between random labels (cycles included)
	nd := r.intn(4)
	for i := 0; i < nd; i++ {
		in := c.fields(FStruct, []int{0, 1, 1, 2}[r.intn(4)])
		out := c.fields(FStruct, 1+r.intn(2))
		if r.chance(15) {
			out = nil // a converter that returns nothing (or only an error)
		}
		convs = append(convs, c.addFunc(in, out, c.formFor(in), c.formFor(out)))
	}
	if r.chance(25) && len(convs) > 0 {
		// bidirectional partner of an existing single-in/single-out converter
		d := c.sc.Funcs[convs[r.intn(len(convs))]]
		if len(d.In) == 1 && len(d.Out) >= 1 {
			convs = append(convs, c.addFunc([]Field{d.Out[0]}, []Field{d.In[0]}, c.formFor([]Field{d.Out[0]}), c.formFor([]Field{d.In[0]})))
		}
	}
	if r.chance(10) {
		// the target itself (or a function of exactly its Go type) is also registered as a converter
		if r.chance(50) {
			convs = append(convs, ti)
		} else {
			d := c.sc.Funcs[ti]
			fi := c.addFunc(d.In, d.Out, d.InForm, d.OutForm)
			c.sc.Funcs[fi].Err, c.sc.Funcs[fi].Once, c.sc.Funcs[fi].Built = d.Err, false, false
			convs = append(convs, fi)
		}
	}
	if r.chance(12) && len(convs) > 0 {
		// a second function of the SAME Go type as an existing converter
		d := c.sc.Funcs[convs[r.intn(len(convs))]]
		fi := c.addFunc(d.In, d.Out, d.InForm, d.OutForm)
		c.sc.Funcs[fi].Err = d.Err
		convs = append(convs, fi)
	}
	for i := r.intn(3); i > 0; i-- {
		opts = append(opts, c.randomOpt())
	}
	if r.chance(10) {
		opts = c.caseDup(opts)
	}
	if r.chance(10) {
		opts = c.altDup(opts)
	}
	if r.chance(10) && len(opts) > 0 {
		opts = append(opts, opts[r.intn(len(opts))]) // duplicate key: last wins
		c.serial++
		o := &opts[len(opts)-1]
		if len(o.Vals) > 0 && o.Vals[0] != nil {
			o.Vals = []*Val{{Serial: c.serial, Ty: o.Vals[0].Ty}}
		}
	}
	// several values in ONE Typed(...) option, a nil among them
	var typedIdx []int
	for i, o := range opts {
		if o.Kind == "typed" && len(o.Vals) == 1 {
			typedIdx = append(typedIdx, i)
		}
	}
	if len(typedIdx) >= 2 && r.chance(40) {
		a, b := typedIdx[0], typedIdx[1]
		merged := Opt{Kind: "typed", Vals: []*Val{opts[a].Vals[0], nil, opts[b].Vals[0]}}
		if r.chance(50) {
			merged.Vals = []*Val{nil, opts[a].Vals[0], opts[b].Vals[0]}
		}
		opts[a] = merged
		opts = append(opts[:b], opts[b+1:]...)
	}
	shuffleOpts(r, opts)
	cs := c.convOpts(convs)
	opts = append(opts, cs...)
	if r.chance(30) {
		shuffleOpts(r, opts)
	}
	// failures
	if r.chance(35) && len(c.sc.Funcs) > 0 {
		d := c.sc.Funcs[r.intn(len(c.sc.Funcs))]
		d.Err = true
		from := r.intn(3)
		if r.chance(35) {
			// it fails ONCE and works again afterwards (the first matching row decides)
			c.sc.Beh = append(c.sc.Beh, BehRow{Fid: d.ID, From: from + 1, Kind: 0})
		}
		c.sc.Beh = append(c.sc.Beh, BehRow{Fid: d.ID, From: from, Kind: 1, Err: 900 + r.intn(6)})
	}
	if r.chance(8) {
		for _, d := range c.sc.Funcs {
			if d.OutForm == FPtr && len(d.Out) > 0 && d.ID != c.sc.Funcs[ti].ID {
				c.sc.Beh = append(c.sc.Beh, BehRow{Fid: d.ID, From: 0, Kind: 2})
				break
			}
		}
	}
	var defaults []Opt
	if r.chance(20) && len(opts) > 1 {
		k := 1 + r.intn(len(opts)-1)
		defaults, opts = opts[:k], opts[k:]
	}
	// malformed stream
	if class == 2 {
		switch r.intn(5) {
		case 0:
			opts = append(opts, Opt{Kind: "nil"})
		case 1:
			opts = append(opts, Opt{Kind: "conv", Fns: []int{-1}})
		case 2:
			opts = append(opts, Opt{Kind: "conv", Fns: []int{-2}})
		case 3:
			opts = append(opts, Opt{Kind: "named", Name: "a", Vals: []*Val{nil}}, Opt{Kind: "typed", Vals: []*Val{nil, nil}}, Opt{Kind: "convfunc", Fns: []int{-1}})
		case 4:
			opts = append(opts, Opt{Kind: "other"})
		}
		shuffleOpts(r, opts)
	}
	nops := 1
	if r.chance(30) {
		nops = 2 + r.intn(3)
	}
	if class != 1 && len(defaults) > 0 && len(opts) > 1 && r.chance(50) {
		// f1 := NewFunc(fn, common...); f2 := NewFunc(fn, append(common, X)...): a Call on f1
		// must not leak its options into f2's defaults (f2 lacks the first call option)
		x := c.randomOpt()
		d2 := append(append([]Opt(nil), defaults...), x)
		c.sc.Ops = append(c.sc.Ops, Op{Kind: "call", Target: ti, Defaults: defaults, Opts: opts})
		c.sc.Ops = append(c.sc.Ops, Op{Kind: "call", Target: ti, Defaults: d2, Opts: opts[1:], SharePrefix: 1})
		c.sc.Ops = append(c.sc.Ops, Op{Kind: "call", Target: ti, Defaults: defaults, Opts: opts})
		c.sc.Ops = append(c.sc.Ops, Op{Kind: "call", Target: ti, Defaults: d2, Opts: opts[1:], SharePrefix: 1})
		return
	}
	if class == 1 && len(defaults) > 0 && len(opts) > 0 && r.chance(50) {
		// two Funcs whose default slices share a backing array: the second has
		// one more default; the first is called with an option for that very key
		extra := opts[len(opts)-1]
		if len(extra.Vals) > 0 && extra.Vals[0] != nil {
			alt := extra
			c.serial++
			alt.Vals = []*Val{{Serial: c.serial, Ty: extra.Vals[0].Ty}}
			d2 := append(append([]Opt(nil), defaults...), extra)
			c.sc.Ops = append(c.sc.Ops, Op{Kind: "call", Target: ti, Defaults: defaults, Opts: append(append([]Opt(nil), opts[:len(opts)-1]...), alt)})
			c.sc.Ops = append(c.sc.Ops, Op{Kind: "call", Target: ti, Defaults: d2, Opts: opts[:len(opts)-1], SharePrefix: 1})
			return
		}
	}
	if tgt := c.sc.Funcs[ti]; class == 1 && len(defaults) == 0 && tgt.InForm == FStruct && len(tin) > 0 && !tgt.Built && hopelessPair < 0 && addressable(tin) && r.chance(20) {
		// a wrapper assembled with BuildFunc from the target's OWN input set is called between
		// two calls of the target, each time with fresh exact values
		w := &FnDecl{ID: c.nextFid, InForm: FStruct, In: tin, OutForm: FStruct, Err: true, Built: true, ShareIn: ti + 1}
		c.nextFid++
		c.sc.Funcs = append(c.sc.Funcs, w)
		wi := len(c.sc.Funcs) - 1
		c.sc.Ops = append(c.sc.Ops, Op{Kind: "call", Target: ti, Opts: opts})
		c.sc.Ops = append(c.sc.Ops, Op{Kind: "call", Target: wi, Opts: c.revalue(opts)})
		c.sc.Ops = append(c.sc.Ops, Op{Kind: "call", Target: ti, Opts: c.revalue(opts)})
		return
	}
	for i := 0; i < nops; i++ {
		o := opts
		if i > 0 && r.chance(50) {
			// the same Func is called again with the same keys and FRESH values
			o = c.revalue(opts)
		}
		c.sc.Ops = append(c.sc.Ops, Op{Kind: "call", Target: ti, Defaults: defaults, Opts: o})
	}
}

// revalue copies an option list giving every supplied value a fresh identity
func (c *gctx) revalue(opts []Opt) []Opt {
	out := make([]Opt, len(opts))
	for i, o := range opts {
		out[i] = o
		if len(o.Vals) > 0 {
			out[i].Vals = make([]*Val, len(o.Vals))
			for j, v := range o.Vals {
				if v != nil {
					c.serial++
					out[i].Vals[j] = &Val{Serial: c.serial, Ty: v.Ty}
				}
			}
		}
	}
	return out
}

// generator scenario: converters supplied through ConverterGen
func genGenScenario(c *gctx) {
	r := c.r
	tin := c.fields(FStruct, 1+r.intn(2))
	ti := c.addFunc(tin, c.fields(FStruct, 1), c.formFor(tin), FPos)
	c.sc.Funcs[ti].Once = false
	c.sc.Funcs[ti].Out = []Field{{Ty: c.cty()}}
	var opts []Opt
	gd := &GenDecl{ID: 1}
	for _, f := range tin {
		src := c.field(FStruct)
		if cc, ok := carrier[src.Ty]; ok {
			src.Ty = cc
		}
		if r.chance(35) {
			// the generator fires on the OUTPUT of an ordinary converter, not on a direct input
			pre := c.field(FStruct)
			if cc, ok := carrier[pre.Ty]; ok {
				pre.Ty = cc
			}
			if !(pre.Name == src.Name && pre.Ty == src.Ty && pre.Sub == src.Sub) {
				opts = append(opts, c.exactOpt(pre))
				pc := c.addFunc([]Field{pre}, []Field{src}, c.formFor([]Field{pre}), c.formFor([]Field{src}))
				opts = append(opts, Opt{Kind: "conv", Fns: []int{pc}})
			} else {
				opts = append(opts, c.exactOpt(src))
			}
		} else {
			opts = append(opts, c.exactOpt(src))
		}
		fi := c.addFunc([]Field{src}, []Field{f}, c.formFor([]Field{src}), c.formFor([]Field{f}))
		k := vkeyT{Kind: 4, Ty: src.Ty, Sub: src.Sub}
		if src.Name != "" {
			k = vkeyT{Kind: 2, Name: src.Name, Ty: src.Ty, Sub: src.Sub}
		}
		row := GenRow{Key: k, Res: 2, Fn: fi}
		if r.chance(12) {
			row = GenRow{Key: k, Res: 1, Err: 950}
		}
		gd.Rows = append(gd.Rows, row)
	}
	c.sc.Gens = append(c.sc.Gens, gd)
	switch r.intn(3) {
	case 0:
		opts = append(opts, Opt{Kind: "gen", Gens: []int{0}})
	case 1:
		// a generator that declines every value is asked first: the next one is still asked
		c.sc.Gens = append(c.sc.Gens, &GenDecl{ID: 2})
		opts = append(opts, Opt{Kind: "gen", Gens: []int{1, 0}})
	default:
		c.sc.Gens = append(c.sc.Gens, &GenDecl{ID: 2})
		opts = append(opts, Opt{Kind: "gen", Gens: []int{1}}, Opt{Kind: "gen", Gens: []int{0}})
	}
	shuffleOpts(r, opts)
	c.sc.Ops = append(c.sc.Ops, Op{Kind: "call", Target: ti, Opts: opts})
}

// Convert scenario
func genConvertScenario(c *gctx) {
	r := c.r
	if r.chance(10) {
		// two different types with the same printed name, converted one after the other
		for _, t := range []int{30, 31} {
			src := c.cty()
			fi := c.addFunc([]Field{{Ty: src}}, []Field{{Ty: t}}, FPos, FPos)
			c.sc.Funcs[fi].Err, c.sc.Funcs[fi].Once = false, false
			opts := []Opt{{Kind: "typed", Vals: []*Val{c.val(src)}}, {Kind: "conv", Fns: []int{fi}}}
			if r.chance(50) {
				opts = []Opt{{Kind: "typed", Vals: []*Val{c.val(t)}}}
			}
			c.sc.Ops = append(c.sc.Ops, Op{Kind: "convert", Ty: t, Opts: opts})
		}
		return
	}
	t := c.ty()
	if r.chance(10) {
		// the converter comes from a generator; a generator that declines everything is asked first
		src := c.cty()
		tt := t
		if cc, ok := carrier[t]; ok {
			tt = cc
		}
		if src != tt {
			fi := c.addFunc([]Field{{Ty: src}}, []Field{{Ty: tt}}, FPos, FPos)
			c.sc.Funcs[fi].Once = false
			c.sc.Gens = append(c.sc.Gens, &GenDecl{ID: 2}, &GenDecl{ID: 1, Rows: []GenRow{{Key: vkeyT{Kind: 4, Ty: src}, Res: 2, Fn: fi}}})
			opts := []Opt{{Kind: "typed", Vals: []*Val{c.val(src)}}}
			if r.chance(50) {
				opts = append(opts, Opt{Kind: "gen", Gens: []int{0, 1}})
			} else {
				opts = append(opts, Opt{Kind: "gen", Gens: []int{0}}, Opt{Kind: "gen", Gens: []int{1}})
			}
			c.sc.Ops = append(c.sc.Ops, Op{Kind: "convert", Ty: t, Opts: opts})
			return
		}
	}
	if r.chance(8) {
		// the interface type error as target: func(error) error has no output,
		// only an error result -- a resolvable conversion fails with the injected value
		src := c.cty()
		var opts []Opt
		switch r.intn(3) {
		case 0:
			opts = []Opt{{Kind: "typed", Vals: []*Val{{Serial: c.serial + 1, Ty: 6}}}}
			c.serial++
		case 1:
			fi := c.addFunc([]Field{{Ty: src}}, []Field{{Ty: 6}}, FPos, FPos)
			c.sc.Funcs[fi].Err, c.sc.Funcs[fi].Once = false, false
			opts = []Opt{{Kind: "typed", Vals: []*Val{c.val(src)}}, {Kind: "conv", Fns: []int{fi}}}
		default:
			opts = []Opt{{Kind: "typed", Vals: []*Val{c.val(src)}}}
		}
		c.sc.Ops = append(c.sc.Ops, Op{Kind: "convert", Ty: 12, Opts: opts})
		return
	}
	var convs []int
	var opts []Opt
	if !r.chance(15) {
		opts = c.derive(Field{Ty: t}, r.intn(3), &convs)
	}
	for i := r.intn(2); i > 0; i-- {
		in := c.fields(FStruct, 1)
		out := c.fields(FStruct, 1)
		convs = append(convs, c.addFunc(in, out, c.formFor(in), c.formFor(out)))
	}
	if r.chance(15) {
		// a converter with the identity's own Go type
		convs = append(convs, c.addFunc([]Field{{Ty: t}}, []Field{{Ty: t}}, FPos, FPos))
		c.sc.Funcs[convs[len(convs)-1]].Err = false
	}
	if r.chance(25) {
		opts = c.caseDup(opts)
	}
	opts = append(opts, c.convOpts(convs)...)
	if r.chance(30) && len(c.sc.Funcs) > 0 {
		d := c.sc.Funcs[r.intn(len(c.sc.Funcs))]
		d.Err = true
		c.sc.Beh = append(c.sc.Beh, BehRow{Fid: d.ID, From: 0, Kind: 1, Err: 901})
	}
	c.sc.Ops = append(c.sc.Ops, Op{Kind: "convert", Ty: t, Opts: opts})
}

// caseDup supplies one of the named values a second time under the same name in
// another letter case, with a fresh value: the later one wins
func (c *gctx) caseDup(opts []Opt) []Opt {
	for i, o := range opts {
		if (o.Kind == "named" || o.Kind == "namedsub") && len(o.Vals) == 1 && o.Vals[0] != nil && o.Name != "" {
			dup := o
			if o.Name == strings.ToLower(o.Name) {
				dup.Name = strings.ToUpper(o.Name)
			} else {
				dup.Name = strings.ToLower(o.Name)
			}
			c.serial++
			dup.Vals = []*Val{{Serial: c.serial, Ty: o.Vals[0].Ty}}
			if c.r.chance(50) {
				return append(opts, dup)
			}
			// ... or the upper-case spelling first
			out := append([]Opt(nil), opts[:i]...)
			out = append(out, dup)
			return append(out, opts[i:]...)
		}
	}
	return opts
}

// altDup addresses the slot of one supplied value a second time through the OTHER
// spelling of the same key (Typed(v) / TypedSubtype(v, "") / Named("", v);
// Named(n, v) / NamedSubtype(n, v, "")), with a fresh value: the later option wins
func (c *gctx) altDup(opts []Opt) []Opt {
	var idx []int
	for i, o := range opts {
		if len(o.Vals) == 1 && o.Vals[0] != nil {
			switch {
			case o.Kind == "typed", o.Kind == "typedsub" && o.Sub == "", o.Kind == "named", o.Kind == "namedsub" && o.Sub == "":
				idx = append(idx, i)
			}
		}
	}
	if len(idx) == 0 {
		return opts
	}
	i := idx[c.r.intn(len(idx))]
	o := opts[i]
	dup := o
	c.serial++
	dup.Vals = []*Val{{Serial: c.serial, Ty: o.Vals[0].Ty}}
	switch {
	case o.Kind == "typed":
		dup.Kind, dup.Sub = "typedsub", ""
	case o.Kind == "typedsub":
		dup.Kind = "typed"
	case o.Kind == "named" && o.Name == "":
		dup.Kind, dup.Sub = "typedsub", ""
	case o.Kind == "named":
		dup.Kind, dup.Sub = "namedsub", ""
	default:
		dup.Kind = "named"
	}
	if c.r.chance(50) {
		return append(opts, dup)
	}
	out := append([]Opt(nil), opts[:i]...)
	out = append(out, dup)
	return append(out, opts[i:]...)
}

// Redefine scenario (C08 domain when strict: single-input converters, no subtypes)
func genRedefineScenario(c *gctx, strict bool) {
	r := c.r
	c.noSub = strict || r.chance(60)
	c.noIface = (strict && r.chance(70)) || (!strict && r.chance(70))
	nameTy := map[string]int{}
	fix := func(fs []Field) []Field {
		// each name denotes a single type
		for i := range fs {
			if fs[i].Name != "" {
				if t, ok := nameTy[fs[i].Name]; ok {
					fs[i].Ty = t
				} else {
					nameTy[fs[i].Name] = fs[i].Ty
				}
			}
		}
		return fs
	}
	tin := fix(c.fields(FStruct, 1+r.intn(3)))
	tout := c.fields(FStruct, r.intn(3))
	if !strict && r.chance(12) {
		// an ordinary result of the interface type error (a struct field, not the final error)
		tout = append(tout, Field{Name: "e", Ty: 12})
	}
	posErr := !strict && r.chance(8)
	if posErr {
		// func(...) (error, T, error): an ordinary error result that is not the final one
		tout = []Field{{Ty: 12}, {Ty: c.cty()}}
	}
	ti := c.addFunc(tin, tout, c.formFor(tin), c.formFor(tout))
	c.sc.Funcs[ti].Once = false
	if c.sc.Funcs[ti].OutForm == FPtr {
		c.sc.Funcs[ti].OutForm = FStruct
	}
	if posErr {
		c.sc.Funcs[ti].OutForm, c.sc.Funcs[ti].Err, c.sc.Funcs[ti].Built = FPos, true, false
	}
	var convs []int
	var opts []Opt
	var permit []int
	for _, f := range tin {
		switch r.intn(4) {
		case 0: // supplied
			opts = append(opts, c.exactOpt(f))
		case 1: // left open, permitted
			permit = append(permit, f.Ty)
		default: // reachable through a chain from a permitted type
			cur := f
			for d := 1 + r.intn(3); d > 0; d-- {
				if r.chance(15) && cur.Name != "" {
					// the chain starts at a provider (no inputs) returning a named value
					convs = append(convs, c.addFunc(nil, []Field{cur}, FPos, FStruct))
					cur = Field{Ty: -1}
					break
				}
				src := fix([]Field{c.field(FStruct)})[0]
				if strict {
					src.Sub = ""
				}
				convs = append(convs, c.addFunc([]Field{src}, []Field{cur}, c.formFor([]Field{src}), c.formFor([]Field{cur})))
				cur = src
			}
			if cur.Ty < 0 {
				// provider: nothing to supply or permit
			} else if r.chance(30) {
				opts = append(opts, c.exactOpt(cur))
			} else {
				permit = append(permit, cur.Ty)
			}
		}
	}
	for i := r.intn(3); i > 0; i-- {
		in := fix(c.fields(FStruct, 1))
		out := fix(c.fields(FStruct, 1))
		if !strict && r.chance(30) {
			in = fix(c.fields(FStruct, 2))
		}
		convs = append(convs, c.addFunc(in, out, c.formFor(in), c.formFor(out)))
	}
	for _, d := range c.sc.Funcs {
		if strict {
			d.Once = false
		}
	}
	if !strict && r.chance(30) && len(convs) > 0 {
		// one converter is not supplied directly but generated for a value that is in the graph
		var key *vkeyT
		for _, f := range tin {
			if f.Name != "" {
				key = &vkeyT{Kind: 2, Name: f.Name, Ty: f.Ty, Sub: f.Sub}
				break
			}
		}
		if key != nil {
			gi := convs[len(convs)-1]
			convs = convs[:len(convs)-1]
			c.sc.Gens = append(c.sc.Gens, &GenDecl{ID: 1, Rows: []GenRow{{Key: *key, Res: 2, Fn: gi}}})
			opts = append(opts, Opt{Kind: "gen", Gens: []int{len(c.sc.Gens) - 1}})
		}
	}
	opts = append(opts, c.convOpts(convs)...)
	if !r.chance(20) {
		var subs []Flt
		for _, t := range permit {
			subs = append(subs, Flt{Kind: 0, Ty: t})
		}
		if r.chance(30) {
			subs = append(subs, Flt{Kind: 0, Ty: c.cty()})
		}
		opts = append(opts, Opt{Kind: "filterin", Flt: &Flt{Kind: 1, Subs: subs}})
	}
	if r.chance(25) {
		var subs []Flt
		for _, f := range tout {
			if !r.chance(25) {
				subs = append(subs, Flt{Kind: 0, Ty: f.Ty})
			}
		}
		opts = append(opts, Opt{Kind: "filterout", Flt: &Flt{Kind: 1, Subs: subs}})
	}
	shuffleOpts(r, opts)
	if !strict && r.chance(30) && len(c.sc.Funcs) > 1 {
		// a converter fails when the redefined function is called
		d := c.sc.Funcs[1+r.intn(len(c.sc.Funcs)-1)]
		d.Err = true
		c.sc.Beh = append(c.sc.Beh, BehRow{Fid: d.ID, From: 0, Kind: 1, Err: 903 + r.intn(3)})
	}
	var defaults []Opt
	switch {
	case r.chance(15):
		// everything is a default of the function; Redefine() and Call() get no options
		defaults, opts = opts, nil
	case r.chance(10):
		// a restrictive default filter REMOVED by FilterInput(nil) given to Redefine/Call
		defaults = []Opt{{Kind: "filterin", Flt: &Flt{Kind: 1, Subs: []Flt{{Kind: 0, Ty: c.cty()}}}}}
		var kept []Opt
		for _, o := range opts {
			if o.Kind != "filterin" {
				kept = append(kept, o)
			}
		}
		opts = append(kept, Opt{Kind: "filterin", Flt: nil})
	case r.chance(20) && len(opts) > 0:
		// defaults that CONFLICT with the options given to Redefine/Call: the latter win
		for _, o := range opts {
			switch o.Kind {
			case "named", "typed", "namedsub", "typedsub":
				alt := o
				alt.Vals = nil
				for _, v := range o.Vals {
					if v != nil {
						c.serial++
						alt.Vals = append(alt.Vals, &Val{Serial: c.serial, Ty: v.Ty})
					}
				}
				if len(alt.Vals) > 0 {
					defaults = append(defaults, alt)
				}
			case "filterin":
				defaults = append(defaults, Opt{Kind: "filterin", Flt: &Flt{Kind: 1, Subs: []Flt{{Kind: 0, Ty: c.cty()}}}})
			}
		}
	}
	if len(opts) > 0 && len(tin) > 0 && r.chance(20) {
		// first := f.Redefine(base...); second := f.Redefine(append(base, X)...): calling one
		// redefined function must not rewrite the arguments of the other
		more := append(append([]Opt(nil), opts...), c.exactOpt(tin[r.intn(len(tin))]))
		c.sc.Ops = append(c.sc.Ops, Op{Kind: "redefine", Target: ti, Defaults: defaults, Opts: opts})
		c.sc.Ops = append(c.sc.Ops, Op{Kind: "redefine", Target: ti, Defaults: defaults, Opts: more, ShareOpts: len(c.sc.Ops)})
		n := len(c.sc.Ops)
		for _, ref := range []int{n - 1, n - 2, n - 1, n - 2} {
			c.sc.Ops = append(c.sc.Ops, Op{Kind: "callredef", Ref: ref})
		}
		return
	}
	if r.chance(20) {
		c.sc.Ops = append(c.sc.Ops, Op{Kind: "call", Target: ti, Defaults: defaults, Opts: opts})
	}
	c.sc.Ops = append(c.sc.Ops, Op{Kind: "redefine", Target: ti, Defaults: defaults, Opts: opts})
	ref := len(c.sc.Ops) - 1
	c.sc.Ops = append(c.sc.Ops, Op{Kind: "callredef", Ref: ref})
	if r.chance(30) {
		c.sc.Ops = append(c.sc.Ops, Op{Kind: "redefine", Target: ti, Defaults: defaults, Opts: opts})
		c.sc.Ops = append(c.sc.Ops, Op{Kind: "callredef", Ref: ref})
	}
	if r.chance(40) {
		c.sc.Ops = append(c.sc.Ops, Op{Kind: "call", Target: ti, Defaults: defaults, Opts: opts})
	}
}

// histories around run-once converters and Redefine (C09, C11)
// genRedefNameScenario: a redefine scenario whose input/output filters also
// test Value.Name / Value.Subtype (what a caller-written FilterFunc can do):
// same-typed vertices are treated differently by name.
func genRedefNameScenario(c *gctx, strict bool) {
	genRedefineScenario(c, strict)
	r := c.r
	var names, subs []string
	seenN, seenS := map[string]bool{}, map[string]bool{}
	note := func(fs []Field) {
		for _, f := range fs {
			n := strings.ToLower(f.Name)
			if !seenN[n] {
				seenN[n] = true
				names = append(names, n)
			}
			if !seenS[f.Sub] {
				seenS[f.Sub] = true
				subs = append(subs, f.Sub)
			}
		}
	}
	for _, f := range c.sc.Funcs {
		note(f.In)
		note(f.Out)
	}
	if !seenN[""] {
		names = append(names, "")
	}
	if !seenS[""] {
		subs = append(subs, "")
	}
	test := func() Flt {
		var alts []Flt
		for _, n := range names {
			if r.chance(50) {
				alts = append(alts, Flt{Kind: 3, Name: n})
			}
		}
		if r.chance(25) {
			alts = append(alts, Flt{Kind: 4, Name: subs[r.intn(len(subs))]})
		}
		if r.chance(15) {
			alts = append(alts, Flt{Kind: 3, Name: "nosuchname"})
		}
		return Flt{Kind: 1, Subs: alts}
	}
	rewrite := func(opts []Opt) bool {
		hit := false
		for i := range opts {
			if (opts[i].Kind == "filterin" || opts[i].Kind == "filterout") && opts[i].Flt != nil {
				old := *opts[i].Flt
				if r.chance(60) {
					opts[i].Flt = &Flt{Kind: 2, Subs: []Flt{old, test()}} // old AND name test
				} else {
					opts[i].Flt = &Flt{Kind: 1, Subs: []Flt{old, test()}} // old OR name test
				}
				hit = true
			}
		}
		return hit
	}
	for i := range c.sc.Ops {
		op := &c.sc.Ops[i]
		if op.SharePrefix > 0 || op.ShareOpts > 0 || op.SliceOf > 0 {
			return // option slices shared between operations: leave the scenario as generated
		}
	}
	for i := range c.sc.Ops {
		op := &c.sc.Ops[i]
		h1 := rewrite(op.Defaults)
		h2 := rewrite(op.Opts)
		if op.Kind == "redefine" && !h1 && !h2 {
			t := test()
			op.Opts = append(op.Opts, Opt{Kind: "filterin", Flt: &t})
		}
	}
}

func genOnceScenario(c *gctx) {
	r := c.r
	c.built = r.chance(40)
	genCallScenario(c, 0)
	base := c.sc.Ops[0]
	anyOnce := false
	for i, d := range c.sc.Funcs {
		if i != base.Target && r.chance(60) {
			d.Once = true
			anyOnce = true
		}
		if i == base.Target && r.chance(25) {
			d.Once = true // a run-once TARGET (with or without results): later calls return its memo
		}
	}
	_ = anyOnce
	nilLater := r.chance(15)
	// once functions must be shared objects: use ConverterFunc for all
	for i := range base.Opts {
		if base.Opts[i].Kind == "conv" {
			base.Opts[i].Kind = "convfunc"
		}
	}
	c.sc.Ops = nil
	n := 2 + r.intn(4)
	for i := 0; i < n; i++ {
		k := r.intn(4)
		if i == 0 && r.chance(40) {
			k = 0 // plan before the first real execution
		}
		switch k {
		case 0:
			ro := base.Opts
			if r.chance(60) {
				// only the types of directly supplied values may be inputs: the plan
				// must go through the converters
				var subs []Flt
				for _, o := range base.Opts {
					for _, v := range o.Vals {
						if v != nil {
							subs = append(subs, Flt{Kind: 0, Ty: v.Ty})
						}
					}
				}
				ro = append(append([]Opt(nil), base.Opts...), Opt{Kind: "filterin", Flt: &Flt{Kind: 1, Subs: subs}})
			}
			c.sc.Ops = append(c.sc.Ops, Op{Kind: "redefine", Target: base.Target, Defaults: base.Defaults, Opts: ro})
		case 1:
			// call one of the converters directly (a run-once one hands out its memo)
			var cand []int
			for i, d := range c.sc.Funcs {
				nilres := false
				for _, b := range c.sc.Beh {
					if b.Fid == d.ID && b.Kind == 2 {
						nilres = true // the model does not represent a nil *struct as a target's raw result
					}
				}
				if i != base.Target && !d.Built && len(d.Out) > 0 && !nilres {
					cand = append(cand, i)
				}
			}
			if len(cand) > 0 && r.chance(50) {
				c.sc.Ops = append(c.sc.Ops, Op{Kind: "call", Target: cand[r.intn(len(cand))], Opts: base.Opts})
				continue
			}
			c.sc.Ops = append(c.sc.Ops, base)
		default:
			o := base
			if r.chance(30) && len(o.Opts) > 1 {
				// drop one option: the cached converter may now lack an input
				k := r.intn(len(o.Opts))
				o.Opts = append(append([]Opt(nil), o.Opts[:k]...), o.Opts[k+1:]...)
			}
			c.sc.Ops = append(c.sc.Ops, o)
		}
	}
	if nilLater && len(c.sc.Ops) > 1 {
		// a LATER call is given a nil option: an error result, whatever was memoized before
		last := &c.sc.Ops[len(c.sc.Ops)-1]
		if last.Kind == "call" {
			o := append(append([]Opt(nil), last.Opts...), Opt{Kind: "nil"})
			if r.chance(50) {
				o = append([]Opt{{Kind: "nil"}}, last.Opts...)
			}
			last.Opts = o
		}
	}
}

func scenarioText(sc *Scenario) string {
	var b strings.Builder
	for _, d := range sc.Funcs {
		fmt.Fprintf(&b, "f%d(form %d %v)->(form %d %v) err=%v once=%v; ", d.ID, d.InForm, d.In, d.OutForm, d.Out, d.Err, d.Once)
	}
	for _, o := range sc.Ops {
		fmt.Fprintf(&b, "%s target=%d ty=%d ref=%d opts=%s | ", o.Kind, o.Target, o.Ty, o.Ref, optsText(o.Opts))
	}
	fmt.Fprintf(&b, "beh=%v", sc.Beh)
	return b.String()
}
func optsText(opts []Opt) string {
	var ps []string
	for _, o := range opts {
		s := o.Kind
		if o.Name != "" {
			s += ":" + o.Name
		}
		if o.Sub != "" {
			s += "/" + o.Sub
		}
		for _, v := range o.Vals {
			if v == nil {
				s += " nil"
			} else {
				s += fmt.Sprintf(" T%d#%d", v.Ty, v.Serial)
			}
		}
		if len(o.Fns) > 0 {
			s += fmt.Sprint(o.Fns)
		}
		if o.Flt != nil {
			s += fltTerm(o.Flt)
		}
		ps = append(ps, s)
	}
	return strings.Join(ps, ", ")
}

var wdIdx, wdLast int64

func cloneScenario(sc *Scenario) *Scenario {
	c := &Scenario{Gens: sc.Gens, Beh: sc.Beh}
	for _, d := range sc.Funcs {
		dd := *d
		dd.fn, dd.raw, dd.ftype = nil, nil, 0
		c.Funcs = append(c.Funcs, &dd)
	}
	c.Ops = append(c.Ops, sc.Ops...)
	return c
}

// obsCore strips the tape from an observation term: "(mkOpObs OBS EVENTS TAPE)"
func obsCore(t string) string {
	i := strings.LastIndex(t, " [(")
	j := strings.LastIndex(t, " [])")
	if j > i {
		i = j
	}
	if i < 0 {
		return t
	}
	return t[:i]
}

// twin streams: the scenario plus the verdict of a second, independent run
func twinStream(name string, checker string, mk func(c *gctx), twin func(sc *Scenario) (*Scenario, func(orig, tw []string) bool)) *streamDef {
	return &streamDef{
		name:    name,
		header:  "From ArgMapper Require Import Base Graph GraphAlg Types Args Resolver CheckResolver Monitors Monitors2.\n",
		typ:     "(scn * bool)",
		checker: checker,
		gen: func(r *rng, idx int, st stats) caseOut {
			atomic.StoreInt64(&wdIdx, int64(idx))
			c := &gctx{r: r, sc: &Scenario{}, nextFid: 1, serial: 10, st: st}
			mk(c)
			for i := range c.sc.Ops {
				c.sc.Ops[i].OrdSeed = r.next() | 1
			}
			tw, cmp := twin(cloneScenario(c.sc))
			seed := r.next()
			obs, cats, _ := runScenario(c.sc, seed, &wdLast)
			cores := append([]string(nil), lastCores...)
			runScenario(tw, seed, &wdLast)
			tcores := append([]string(nil), lastCores...)
			atomic.StoreInt64(&wdLast, 0)
			verdict := cmp(cores, tcores)
			nexec := 0
			for _, o := range obs {
				nexec += strings.Count(o, "(EExec ")
			}
			for _, ct := range cats {
				st.inc(name + ".outcome=" + ct)
			}
			st.inc(fmt.Sprintf("%s.twin_equal=%v", name, verdict))
			text := scenarioText(c.sc)
			return caseOut{Term: fmt.Sprintf("(%s, %s)", scenarioTerm(c.sc, obs), boolc(verdict)), Text: text, Hash: text, Trivial: nexec < 1, Category: strings.Join(cats, ",")}
		},
	}
}

func resolverStream(name string, mk func(c *gctx)) *streamDef {
	return &streamDef{
		name:    name,
		header:  "From ArgMapper Require Import Base Graph GraphAlg Types Args Resolver CheckResolver Monitors Monitors2.\n",
		typ:     "scn",
		checker: "check_" + name + "_all",
		gen: func(r *rng, idx int, st stats) caseOut {
			atomic.StoreInt64(&wdIdx, int64(idx))
			c := &gctx{r: r, sc: &Scenario{}, nextFid: 1, serial: 10, st: st}
			mk(c)
			obs, cats, _ := runScenario(c.sc, r.next(), &wdLast)
			atomic.StoreInt64(&wdLast, 0)
			nexec := 0
			for _, o := range obs {
				nexec += strings.Count(o, "(EExec ")
			}
			for _, ct := range cats {
				st.inc(name + ".outcome=" + ct)
			}
			st.inc(fmt.Sprintf("%s.funcs=%d", name, len(c.sc.Funcs)))
			st.inc(fmt.Sprintf("%s.execs=%d", name, min(nexec, 6)))
			text := scenarioText(c.sc)
			return caseOut{Term: scenarioTerm(c.sc, obs), Text: text, Hash: text, Trivial: nexec < 2, Category: strings.Join(cats, ",")}
		},
	}
}

func eventsOf(core string) string {
	i := strings.Index(core, "[(EExec")
	if i < 0 {
		i = strings.Index(core, "[(EGen")
	}
	if i < 0 {
		return ""
	}
	return core[i:]
}

func min(a, b int) int {
	if a < b {
		return a
	}
	return b
}

// family: a named parameter satisfied by the same-named subtyped input, plus
// further parameters converted from it through a type-only converter; several
// tapes per scenario (matching-name discounts must not leak between plans)
func genNameSubFamily(c *gctx) {
	r := c.r
	n := nameAlphabet[r.intn(len(nameAlphabet))]
	T := c.cty()
	U := c.cty()
	for U == T {
		U = c.cty()
	}
	if r.chance(20) {
		// a negative cycle in the re-weighted graph: republish takes the named value n/T and
		// returns the same name and type under a subtype; the target needs n/T, which another
		// converter produces from m/U:   m U -> [make] -> n T -> [republish] -> n T/x -> (n T)
		m := nameAlphabet[(1+indexOf(nameAlphabet, n))%len(nameAlphabet)]
		ti := c.addFunc([]Field{{Name: n, Ty: T}}, c.fields(FStruct, r.intn(2)), FStruct, FStruct)
		mk := c.addFunc([]Field{{Name: m, Ty: U}}, []Field{{Name: n, Ty: T}}, FStruct, FStruct)
		rp := c.addFunc([]Field{{Name: n, Ty: T}}, []Field{{Name: n, Ty: T, Sub: "x"}}, FStruct, FStruct)
		for _, fi := range []int{ti, mk, rp} {
			c.sc.Funcs[fi].Once, c.sc.Funcs[fi].Err = false, false
		}
		opts := []Opt{{Kind: "named", Name: m, Vals: []*Val{c.val(U)}}}
		convs := []int{mk, rp}
		if r.chance(50) {
			convs = []int{rp, mk}
		}
		opts = append(opts, c.convOpts(convs)...)
		shuffleOpts(r, opts)
		for i := 0; i < 6; i++ {
			c.sc.Ops = append(c.sc.Ops, Op{Kind: "call", Target: ti, Opts: opts})
		}
		return
	}
	tin := []Field{{Name: n, Ty: T}, {Ty: U}}
	if r.chance(40) {
		m := nameAlphabet[(r.intn(3)+1+indexOf(nameAlphabet, n))%len(nameAlphabet)]
		tin = append(tin, Field{Name: m, Ty: U})
	}
	if r.chance(50) {
		tin[0], tin[1] = tin[1], tin[0]
	}
	ti := c.addFunc(tin, c.fields(FStruct, r.intn(2)), FStruct, FStruct)
	c.sc.Funcs[ti].Once, c.sc.Funcs[ti].Err = false, false
	conv := c.addFunc([]Field{{Ty: T}}, []Field{{Ty: U}}, FPos, FPos)
	c.sc.Funcs[conv].Once, c.sc.Funcs[conv].Err = false, false
	if r.chance(35) {
		// a int/s -> a int -> [conv by name] -> a U -> target: negative distances with
		// successors still to discover
		c.sc.Funcs = c.sc.Funcs[:0]
		c.nextFid = 1
		ti = c.addFunc([]Field{{Name: n, Ty: U}}, c.fields(FStruct, r.intn(2)), FStruct, FStruct)
		c.sc.Funcs[ti].Once, c.sc.Funcs[ti].Err = false, false
		conv = c.addFunc([]Field{{Name: n, Ty: T}}, []Field{{Name: n, Ty: U}}, FStruct, FStruct)
		c.sc.Funcs[conv].Once, c.sc.Funcs[conv].Err = false, false
	}
	opts := []Opt{{Kind: "namedsub", Name: n, Sub: "s", Vals: []*Val{c.val(T)}}}
	if r.chance(50) {
		opts = append(opts, Opt{Kind: "named", Name: nameAlphabet[(indexOf(nameAlphabet, n)+2)%len(nameAlphabet)], Vals: []*Val{c.val(T)}})
	}
	opts = append(opts, c.convOpts([]int{conv})...)
	shuffleOpts(r, opts)
	for i := 0; i < 6; i++ {
		c.sc.Ops = append(c.sc.Ops, Op{Kind: "call", Target: ti, Opts: opts})
	}
}

func indexOf(xs []string, x string) int {
	for i, y := range xs {
		if y == x {
			return i
		}
	}
	return 0
}

// C07 families
func genC07(c *gctx, f2 bool) {
	r := c.r
	T := c.cty()
	U := c.cty()
	for U == T {
		U = c.cty()
	}
	n := nameAlphabet[r.intn(len(nameAlphabet))]
	tparams := []Field{{Name: n, Ty: U}}
	multi := !f2 && r.chance(35)
	if multi {
		// several named parameters, each to be converted from the input of its own name
		for _, m := range nameAlphabet {
			if m != n && len(tparams) < 2+r.intn(2) {
				tparams = append(tparams, Field{Name: m, Ty: U})
			}
		}
	}
	ti := c.addFunc(tparams, c.fields(FStruct, r.intn(2)), FStruct, FStruct)
	c.sc.Funcs[ti].Once = false
	c.sc.Funcs[ti].Err = false
	var convs []int
	// the type-only converter T -> U (output type-only or named n)
	out := Field{Ty: U}
	if r.chance(30) && !multi {
		out.Name = n
	}
	tc := c.addFunc([]Field{{Ty: T}}, []Field{out}, c.formFor([]Field{{Ty: T}}), c.formFor([]Field{out}))
	c.sc.Funcs[tc].Once, c.sc.Funcs[tc].Err = false, r.chance(20)
	convs = append(convs, tc)
	if f2 {
		nc := c.addFunc([]Field{{Name: n, Ty: T}}, []Field{out}, []int{FStruct, FPtr}[r.intn(2)], c.formFor([]Field{out}))
		c.sc.Funcs[nc].Once, c.sc.Funcs[nc].Err = false, r.chance(20)
		if c.sc.Funcs[nc].OutForm == c.sc.Funcs[tc].OutForm && c.sc.Funcs[nc].InForm == FStruct && c.sc.Funcs[tc].InForm == FStruct {
			c.sc.Funcs[nc].InForm = FPtr
		}
		convs = append(convs, nc)
	}
	// competing named inputs of type T, one named n
	var opts []Opt
	k := 2 + r.intn(3)
	names := []string{n}
	for _, m := range nameAlphabet {
		if m != n && len(names) < k {
			names = append(names, m)
		}
	}
	if multi {
		names = nil
		for _, p := range tparams {
			names = append(names, p.Name)
		}
	}
	subbed := r.chance(30) // the competing inputs carry a subtype label; the parameter has none
	if r.chance(25) {
		// the value named n is the ZERO value of its type
		c.zeroUsed = true
		kind, sub := "named", ""
		if subbed {
			kind, sub = "namedsub", "x"
		}
		opts = append(opts, Opt{Kind: kind, Name: c.casing(n), Sub: sub, Vals: []*Val{{Serial: 0, Ty: T}}})
		names = names[1:]
		if multi {
			names = nil
			for _, p := range tparams[1:] {
				names = append(names, p.Name)
			}
		}
	}
	for _, m := range names {
		if subbed && (m == n || r.chance(60)) {
			opts = append(opts, Opt{Kind: "namedsub", Name: c.casing(m), Sub: "x", Vals: []*Val{c.val(T)}})
		} else {
			opts = append(opts, Opt{Kind: "named", Name: c.casing(m), Vals: []*Val{c.val(T)}})
		}
	}
	// distractors over types disjoint from {T, U}
	var other []int
	for _, t := range concreteTys {
		if t != T && t != U {
			other = append(other, t)
		}
	}
	for i := r.intn(3); i > 0; i-- {
		a, b := other[r.intn(len(other))], other[r.intn(len(other))]
		if a != b {
			convs = append(convs, c.addFunc([]Field{{Ty: a}}, []Field{{Ty: b}}, FPos, FPos))
		}
		opts = append(opts, Opt{Kind: "typed", Vals: []*Val{c.val(other[r.intn(len(other))])}})
	}
	shuffleOpts(r, opts)
	// registration order of the converters varies
	for i := len(convs) - 1; i > 0; i-- {
		j := r.intn(i + 1)
		convs[i], convs[j] = convs[j], convs[i]
	}
	opts = append(opts, c.convOpts(convs)...)
	if r.chance(40) {
		shuffleOpts(r, opts)
	}
	for i := 0; i < 3; i++ { // three order tapes per scenario
		c.sc.Ops = append(c.sc.Ops, Op{Kind: "call", Target: ti, Opts: opts})
	}
}

// C05 family "diamond": acyclic, satisfiable MULTI-input converters whose results are
// needed on several paths through different vertices:
//   inputs X, Y, Z;  join(X, Y) -> T;  render(Z, T) -> U;  target {A T, B U}
// A is derived through join, B through render, and render needs a T that is again
// derived through join (labels of the T's vary: named A / another name / type-only).
func genC05Diamond(c *gctx) {
	r := c.r
	if r.chance(30) {
		// interface family: the required interface value is only derivable through a converter
		// whose DECLARED result type is another interface implementing it (I1 for I0), or a
		// concrete implementation; cyclic single-input converters around it
		src := []int{2, 4, 5}[r.intn(3)]
		res := []int{11, 11, 1, 0, 3}[r.intn(5)] // I1, T1, T0, T3 all implement I0
		p := Field{Ty: 10}
		if r.chance(50) {
			p.Name = nameAlphabet[r.intn(len(nameAlphabet))]
		}
		ti := c.addFunc([]Field{p}, c.fields(FStruct, r.intn(2)), c.formFor([]Field{p}), FStruct)
		out := Field{Ty: res}
		cv := c.addFunc([]Field{{Ty: src}}, []Field{out}, FPos, c.formFor([]Field{out}))
		back := c.addFunc([]Field{{Ty: res}}, []Field{{Ty: src}}, FPos, FPos)
		for _, fi := range []int{ti, cv, back} {
			c.sc.Funcs[fi].Once, c.sc.Funcs[fi].Err, c.sc.Funcs[fi].Built = false, false, false
		}
		opts := []Opt{{Kind: "typed", Vals: []*Val{c.val(src)}}}
		convs := []int{cv}
		if r.chance(50) {
			convs = append(convs, back) // a cycle
		}
		opts = append(opts, c.convOpts(convs)...)
		shuffleOpts(r, opts)
		for i := 0; i < 3; i++ {
			c.sc.Ops = append(c.sc.Ops, Op{Kind: "call", Target: ti, Opts: opts})
		}
		return
	}
	tys := append([]int(nil), concreteTys...)
	for i := len(tys) - 1; i > 0; i-- {
		j := r.intn(i + 1)
		tys[i], tys[j] = tys[j], tys[i]
	}
	X, Y, Z, T, U := tys[0], tys[1], tys[2], tys[3], tys[4]
	lab := func(ty int) Field {
		f := Field{Ty: ty}
		if r.chance(50) {
			f.Name = nameAlphabet[r.intn(len(nameAlphabet))]
		}
		return f
	}
	a := Field{Name: "a", Ty: T}
	if r.chance(30) {
		a = Field{Ty: T}
	}
	b := Field{Name: "b", Ty: U}
	ti := c.addFunc([]Field{a, b}, c.fields(FStruct, r.intn(2)), FStruct, FStruct)
	c.sc.Funcs[ti].Once, c.sc.Funcs[ti].Err = false, false
	jout := Field{Ty: T}
	if r.chance(40) {
		jout = a
	}
	jin := []Field{{Ty: X}, {Ty: Y}}
	join := c.addFunc(jin, []Field{jout}, c.formFor(jin), c.formFor([]Field{jout}))
	rt := Field{Ty: T} // render's T: another vertex than the target's
	if a.Name == "" || r.chance(30) {
		rt = Field{Name: "c", Ty: T}
	}
	rin := []Field{{Ty: Z}, rt}
	if r.chance(50) {
		rin = []Field{rt, {Ty: Z}}
	}
	rout := lab(U)
	if rout.Name != "" {
		rout.Name = "b"
	}
	render := c.addFunc(rin, []Field{rout}, c.formFor(rin), c.formFor([]Field{rout}))
	for _, fi := range []int{join, render} {
		c.sc.Funcs[fi].Once, c.sc.Funcs[fi].Err = false, r.chance(20)
	}
	opts := []Opt{c.exactOpt(Field{Ty: X}), c.exactOpt(Field{Ty: Y}), c.exactOpt(Field{Ty: Z})}
	convs := []int{join, render}
	if r.chance(50) {
		convs = []int{render, join}
	}
	if r.chance(30) {
		// a third consumer of join's result
		w := tys[5]
		convs = append(convs, c.addFunc([]Field{{Ty: T}, {Ty: X}}, []Field{{Ty: w}}, FPos, FPos))
		c.sc.Funcs[convs[len(convs)-1]].Once = false
	}
	opts = append(opts, c.convOpts(convs)...)
	shuffleOpts(r, opts)
	for i := 0; i < 6; i++ { // six order tapes per scenario
		c.sc.Ops = append(c.sc.Ops, Op{Kind: "call", Target: ti, Opts: opts})
	}
}

// a built function (target, or the single converter) that fails on ONE call and works on the
// calls before and after it: executions are numbered over the whole history, every call of
// this scenario executes the same functions, so the k-th call fails exactly
func genBuiltFailOnce(c *gctx) {
	r := c.r
	tin := c.fields(FStruct, 1+r.intn(2))
	for !addressable(tin) {
		tin = c.fields(FStruct, 1+r.intn(2))
	}
	tout := c.fields(FStruct, 1+r.intn(2))
	for !addressable(tout) {
		tout = c.fields(FStruct, 1+r.intn(2))
	}
	ti := c.addFunc(tin, tout, FStruct, FStruct)
	d := c.sc.Funcs[ti]
	d.Built, d.InForm, d.OutForm, d.Err, d.Once = true, FStruct, FStruct, true, false
	var opts []Opt
	for _, f := range tin {
		opts = append(opts, c.exactOpt(f))
	}
	per := 1 // executions per call
	failing := d
	if r.chance(50) && len(tout) > 0 {
		// the built function is a converter feeding an ordinary consumer
		cons := c.addFunc([]Field{tout[0]}, nil, c.formFor([]Field{tout[0]}), FPos)
		c.sc.Funcs[cons].Once, c.sc.Funcs[cons].Err, c.sc.Funcs[cons].Built = false, false, false
		opts = append(opts, Opt{Kind: "convfunc", Fns: []int{ti}})
		ti = cons
		per = 2
	}
	k := r.intn(2) // the call that fails (0-based); the built function runs first in every call
	n := k*per + 1
	c.sc.Beh = []BehRow{{Fid: failing.ID, From: n + 1, Kind: 0}, {Fid: failing.ID, From: n, Kind: 1, Err: 900 + r.intn(6)}}
	shuffleOpts(r, opts)
	for i := 0; i < 4; i++ {
		c.sc.Ops = append(c.sc.Ops, Op{Kind: "call", Target: ti, Opts: c.revalue(opts)})
	}
}

func init() {
	startWatchdog(&wdIdx, &wdLast)
	register(resolverStream("c05diamond", genC05Diamond))
	register(resolverStream("namesub", genNameSubFamily))
	register(resolverStream("c07f1", func(c *gctx) { genC07(c, false) }))
	register(resolverStream("c07f2", func(c *gctx) { genC07(c, true) }))
	// C09 twin: the same history without the Redefine operations
	register(twinStream("redeftwin", "run_twin CFull 9", func(c *gctx) {
		if c.r.chance(50) {
			genOnceScenario(c)
		} else {
			genRedefineScenario(c, false)
			// keep calls and redefines only
			var ops []Op
			for _, o := range c.sc.Ops {
				if o.Kind != "callredef" {
					ops = append(ops, o)
				}
			}
			c.sc.Ops = append(ops, ops[len(ops)-1])
			last := &c.sc.Ops[len(c.sc.Ops)-1]
			last.Kind = "call"
			if c.r.chance(40) {
				// the caller keeps ONE option list: Call(full...), Redefine(full[:k]...), Call(full...)
				first := -1
				for i, o := range c.sc.Ops {
					if o.Kind == "call" && len(o.Opts) > 1 && len(o.Defaults) == 0 {
						first = i
						break
					}
				}
				if first < 0 && len(c.sc.Ops[0].Opts) > 1 {
					c.sc.Ops = append([]Op{c.sc.Ops[len(c.sc.Ops)-1]}, c.sc.Ops...)
					first = 0
				}
				if first >= 0 {
					full := c.sc.Ops[first].Opts
					for i := first + 1; i < len(c.sc.Ops); i++ {
						o := &c.sc.Ops[i]
						switch o.Kind {
						case "redefine":
							o.Opts = full[:1+c.r.intn(len(full)-1)]
							o.SliceOf = first + 1
						case "call":
							o.Opts = full
							o.SliceOf = first + 1
						}
					}
				}
			}
		}
	}, func(tw *Scenario) (*Scenario, func(a, b []string) bool) {
		var kept []int
		var ops []Op
		newIdx := map[int]int{}
		for i, o := range tw.Ops {
			if o.Kind == "call" {
				newIdx[i] = len(ops)
				kept = append(kept, i)
				ops = append(ops, o)
			}
		}
		for i := range ops {
			if ops[i].SliceOf > 0 {
				if j, ok := newIdx[ops[i].SliceOf-1]; ok {
					ops[i].SliceOf = j + 1
				} else {
					ops[i].SliceOf = 0
				}
			}
		}
		tw.Ops = ops
		return tw, func(orig, t []string) bool {
			for j, i := range kept {
				if j >= len(t) || orig[i] != t[j] {
					return false
				}
			}
			return true
		}
	}))
	register(resolverStream("call", func(c *gctx) {
		c.repSub = c.r.chance(30)
		switch {
		case c.r.chance(8):
			genGenScenario(c)
		default:
			genCallScenario(c, 0)
		}
	}))
	register(resolverStream("exact", func(c *gctx) { genCallScenario(c, 1) }))
	register(resolverStream("built", func(c *gctx) {
		if c.r.chance(12) {
			genBuiltFailOnce(c)
			return
		}
		c.built = true
		c.repSub = c.r.chance(30)
		genCallScenario(c, 0)
	}))
	register(resolverStream("malformed", func(c *gctx) { genCallScenario(c, 2) }))
	register(resolverStream("convert", genConvertScenario))
	register(resolverStream("redefine", func(c *gctx) { genRedefineScenario(c, false) }))
	register(resolverStream("redefstrict", func(c *gctx) { genRedefineScenario(c, true) }))
	register(resolverStream("redefname", func(c *gctx) { genRedefNameScenario(c, false) }))
	register(resolverStream("redefnamestrict", func(c *gctx) { genRedefNameScenario(c, true) }))
	register(resolverStream("once", genOnceScenario))
	// C10 twin: Call on a hand-written identity function
	register(twinStream("converttwin", "run_twin CFull 0", genConvertScenario, func(tw *Scenario) (*Scenario, func(a, b []string) bool) {
		var ops []Op
		for _, op := range tw.Ops {
			id := &FnDecl{ID: 7777, InForm: FPos, In: []Field{{Ty: op.Ty}}, OutForm: FPos, Out: []Field{{Ty: op.Ty}}, Ident: true}
			tw.Funcs = append(tw.Funcs, id)
			ops = append(ops, Op{Kind: "call", Target: len(tw.Funcs) - 1, Opts: op.Opts, OrdSeed: op.OrdSeed})
		}
		tw.Ops = ops
		return tw, func(orig, t []string) bool {
			for i := range orig {
				if !convertTwinEq(orig[i], t[i]) {
					if os.Getenv("VERIF_STACK") != "" {
						fmt.Fprintf(os.Stderr, "TWIN DIFF\n A=%s\n B=%s\n", orig[i], t[i])
					}
					return false
				}
			}
			return true
		}
	}))
}

// (mkOpObs (ObsConvert E V) EVENTS ..  vs  (mkOpObs (ObsCall E LEN [[v]]) EVENTS ..
func convertTwinEq(a, b string) bool {
	if strings.Contains(a, "ObsPanic") || strings.Contains(b, "ObsPanic") {
		return false
	}
	ea := a[strings.Index(a, "ObsConvert ")+len("ObsConvert "):]
	eb := b[strings.Index(b, "ObsCall ")+len("ObsCall "):]
	if strings.HasPrefix(ea, "ObsOk (Some ") != strings.HasPrefix(eb, "ObsOk ") {
		return false
	}
	if strings.HasPrefix(ea, "ObsOk (Some ") {
		v := ea[len("ObsOk (Some "):strings.Index(ea, "))")]
		if !strings.Contains(eb, "ObsOk 1 [["+v+"]])") {
			return false
		}
	} else {
		// same error class and identity
		ca := strings.SplitN(ea, " None)", 2)[0]
		if !strings.HasPrefix(eb, ca+" 0 [])") {
			return false
		}
	}
	// same executions of user functions
	return eventsOf(a) == eventsOf(b)
}

package main

import (
	"fmt"
	"reflect"
	"time"

	am "github.com/hashicorp/go-argmapper"
)

// The type universe of the resolver streams: six concrete named int types
// and two interfaces.  Model type ids: T0..T5 = 0..5, I0 = 10, I1 = 11.
type T0 int
type T1 int
type T2 int
type T3 int
type T4 int
type T5 int

type I0 interface{ M0() }
type I1 interface {
	M0()
	M1()
}

// E0 is a concrete type implementing error; model ids: E0 = 6, error = 12.
// They are only used for Convert to the interface type error.
type E0 int

// Duration (id 16) has the same bare name as time.Duration (id 17): two distinct defined types
type Duration int64

// IDList is a NAMED slice type (id 15): []int values are assignable to it, but it is another type
type IDList []int

func (e E0) Error() string { return fmt.Sprintf("E0(%d)", int(e)) }

func (T0) M0() {}
func (T1) M0() {}
func (T1) M1() {}
func (T3) M0() {}

var tyOf = map[int]reflect.Type{
	0: reflect.TypeOf(T0(0)), 1: reflect.TypeOf(T1(0)), 2: reflect.TypeOf(T2(0)),
	3: reflect.TypeOf(T3(0)), 4: reflect.TypeOf(T4(0)), 5: reflect.TypeOf(T5(0)),
	10: reflect.TypeOf((*I0)(nil)).Elem(), 11: reflect.TypeOf((*I1)(nil)).Elem(),
}

// two DIFFERENT types that print the same name ("main.Dup"), ids 30 and 31:
// the library identifies vertices by the printed type name, so only one of
// them is used per operation
func dupType() reflect.Type {
	type Dup int
	return reflect.TypeOf(Dup(0))
}
func dupType2() reflect.Type {
	type Dup int
	return reflect.TypeOf(Dup(0))
}

var concreteTys = []int{0, 1, 2, 3, 4, 5}

// unnamed (composite) types: []int = 7, map[string]int = 8, chan int = 9,
// <-chan int = 13 (assignable from chan int but a different type), *T0 = 14
// (implements I0; its zero value is a nil pointer), IDList = 15 (named, underlying []int)
var extraTys = []int{7, 8, 9, 13, 14, 15, 16, 17}
var allTys = []int{0, 1, 2, 3, 4, 5, 7, 8, 9, 13, 14, 15, 16, 17, 10, 11}
var ifaceTys = []int{10, 11}

// implementer used to carry a serial inside an interface-typed result
var carrier = map[int]int{10: 0, 11: 1}

var tidOfString = map[string]int{}
var tidOfType = map[reflect.Type]int{}

func init() {
	for id, t := range tyOf {
		tidOfString[t.String()] = id
		tidOfType[t] = id
	}
	tyOf[7] = reflect.TypeOf([]int(nil))
	tyOf[8] = reflect.TypeOf(map[string]int(nil))
	tyOf[9] = reflect.TypeOf((chan int)(nil))
	tyOf[13] = reflect.TypeOf((<-chan int)(nil))
	tyOf[14] = reflect.TypeOf((*T0)(nil))
	tyOf[15] = reflect.TypeOf(IDList(nil))
	tyOf[16] = reflect.TypeOf(Duration(0))
	tyOf[17] = reflect.TypeOf(time.Duration(0))
	for _, id := range extraTys {
		tidOfString[tyOf[id].String()] = id
		tidOfType[tyOf[id]] = id
	}
	tyOf[30], tyOf[31] = dupType(), dupType2()
	tyOf[6] = reflect.TypeOf(E0(0))
	tyOf[12] = reflect.TypeOf((*error)(nil)).Elem()
	for _, id := range []int{6, 12} {
		tidOfString[tyOf[id].String()] = id
		tidOfType[tyOf[id]] = id
	}
	carrier[12] = 6
	tidOfType[tyOf[30]], tidOfType[tyOf[31]] = 30, 31
}

// dupTid says which of the two same-named types the current operation uses
var dupTid = 30

func tidOfName(s string) (int, bool) {
	if s == tyOf[30].String() {
		return dupTid, true
	}
	id, ok := tidOfString[s]
	return id, ok
}

// universeTerm is the Coq term of the universe (u_iface, u_impl).
func universeTerm() string {
	var impl []string
	for _, t := range allTys {
		for _, i := range ifaceTys {
			if tyOf[t].Implements(tyOf[i]) {
				impl = append(impl, fmt.Sprintf("(%d,%d)", t, i))
			}
		}
	}
	impl = append(impl, "(6,12)", "(12,12)")
	return fmt.Sprintf("(mkU [10; 11; 12] %s)", slist(impl))
}

// mkVal builds a Go value of concrete type tid carrying serial; serial 0 is
// the zero value of the type (0, nil slice/map/chan/pointer).
func mkVal(tid int, serial int) reflect.Value {
	t := tyOf[tid]
	v := reflect.New(t).Elem()
	if serial == 0 {
		return v
	}
	switch t.Kind() {
	case reflect.Slice:
		v.Set(reflect.MakeSlice(t, 1, 1))
		v.Index(0).SetInt(int64(serial))
	case reflect.Map:
		v.Set(reflect.MakeMap(t))
		v.SetMapIndex(reflect.ValueOf(""), reflect.ValueOf(serial))
	case reflect.Chan:
		ch := reflect.MakeChan(reflect.ChanOf(reflect.BothDir, t.Elem()), serial)
		v.Set(ch.Convert(t))
	case reflect.Ptr:
		p := reflect.New(t.Elem())
		p.Elem().SetInt(int64(serial))
		v.Set(p)
	default:
		v.SetInt(int64(serial))
	}
	return v
}

// mkFieldVal builds a value to store in a result field of (possibly
// interface) type tid.
func mkFieldVal(tid int, serial int) reflect.Value {
	if c, ok := carrier[tid]; ok {
		v := reflect.New(tyOf[tid]).Elem()
		v.Set(mkVal(c, serial))
		return v
	}
	return mkVal(tid, serial)
}

// serialOf reads the serial back (0 for a nil interface / zero value).
func serialOf(v reflect.Value) int {
	if !v.IsValid() {
		return -1
	}
	for v.Kind() == reflect.Interface {
		if v.IsNil() {
			return 0
		}
		v = v.Elem()
	}
	switch v.Kind() {
	case reflect.Slice:
		if v.Len() == 0 {
			return 0
		}
		return int(v.Index(0).Int())
	case reflect.Map:
		if x := v.MapIndex(reflect.ValueOf("")); x.IsValid() {
			return int(x.Int())
		}
		return 0
	case reflect.Chan:
		return v.Cap()
	case reflect.Ptr:
		if v.IsNil() {
			return 0
		}
		return int(v.Elem().Int())
	}
	return int(v.Int())
}

var structMarker = reflect.TypeOf(am.Struct{})
var errorType = reflect.TypeOf((*error)(nil)).Elem()

#!/bin/bash
# Build the framework from files on disk only (offline): the Coq development
# (full .vo build), and the Go tools. The harness itself is built by ./check
# against the current /repo working tree on every run.
set -e
cd "$(dirname "$0")"
export GOFLAGS=-mod=mod GOPROXY=off GOSUMDB=off GOTOOLCHAIN=local
python3 tools/genweights.py /repo coq/GenWeights.v
cd coq
coq_makefile -f _CoqProject -o Makefile
timeout 3000 make -j16 -s
cd ..
mkdir -p .bin .cache evidence/replay
(cd tools/instrument && go build -o ../../.bin/instrument .)
echo "setup ok"

// genfootprint: translator from the current sources of package argmapper to
// coq/GenFootprint.v -- the table of statements that can write to state
// shared between calls:
//   kind 1: assignment / inc-dec whose target is rooted in a method receiver
//           of a type that callers share (*Func, *ValueSet, Result, ...)
//   kind 2: assignment whose target is a variable captured by a function
//           literal (declared outside the literal) -- option closures, filters
//   kind 3: assignment to a package-level variable
//   kind 4: append(...) whose first argument is rooted in a receiver field,
//           a captured variable or a package variable (may write into a
//           shared backing array)
// Each row also says whether the statement is lexically inside a region
// where a receiver-rooted mutex is held (Lock() ... defer Unlock()).
// Conservative and syntactic; must run with cwd = repo.
package main

import (
	"flag"
	"fmt"
	"go/ast"
	"go/importer"
	"go/parser"
	"go/token"
	"go/types"
	"os"
	"sort"
	"strings"
)

type row struct {
	fn, target string
	kind       int
	locked     bool
	file       string
	line       int
}

func main() {
	repo := flag.String("repo", "/repo", "repository")
	out := flag.String("out", "", "output .v")
	flag.Parse()
	fset := token.NewFileSet()
	pkgs, err := parser.ParseDir(fset, *repo, func(fi os.FileInfo) bool { return !strings.HasSuffix(fi.Name(), "_test.go") }, parser.ParseComments)
	if err != nil {
		fmt.Fprintln(os.Stderr, err)
		os.Exit(1)
	}
	var rows []row
	for _, pkg := range pkgs {
		var files []*ast.File
		var names []string
		for n := range pkg.Files {
			names = append(names, n)
		}
		sort.Strings(names)
		for _, n := range names {
			f := pkg.Files[n]
			tagged := false
			for _, cg := range f.Comments {
				if cg.Pos() > f.Package {
					break
				}
				for _, c := range cg.List {
					if strings.HasPrefix(c.Text, "//go:build") && strings.Contains(c.Text, "verif") {
						tagged = true
					}
				}
			}
			if !tagged {
				files = append(files, f)
			}
		}
		info := &types.Info{Defs: map[*ast.Ident]types.Object{}, Uses: map[*ast.Ident]types.Object{}}
		conf := types.Config{Importer: importer.ForCompiler(fset, "source", nil), Error: func(error) {}}
		tpkg, _ := conf.Check(pkg.Name, fset, files, info)
		for _, f := range files {
			for _, decl := range f.Decls {
				fd, ok := decl.(*ast.FuncDecl)
				if !ok || fd.Body == nil {
					continue
				}
				var recv types.Object
				if fd.Recv != nil && len(fd.Recv.List) == 1 && len(fd.Recv.List[0].Names) == 1 {
					recv = info.Defs[fd.Recv.List[0].Names[0]]
				}
				fname := fd.Name.Name
				if fd.Recv != nil && len(fd.Recv.List) == 1 {
					t := fd.Recv.List[0].Type
					if s, ok := t.(*ast.StarExpr); ok {
						t = s.X
					}
					if id, ok := t.(*ast.Ident); ok {
						fname = id.Name + "." + fname
					}
				}
				// does the function hold a receiver-rooted lock until it returns?
				lockedFrom := token.NoPos
				ast.Inspect(fd.Body, func(n ast.Node) bool {
					if ds, ok := n.(*ast.DeferStmt); ok {
						if sel, ok := ds.Call.Fun.(*ast.SelectorExpr); ok && sel.Sel.Name == "Unlock" {
							if root := rootIdent(sel.X); root != nil && recv != nil && info.Uses[root] == recv {
								lockedFrom = ds.Pos()
							}
						}
					}
					return true
				})
				var litStack []*ast.FuncLit
				var visit func(n ast.Node) bool
				classify := func(e ast.Expr) (int, string) {
					root := rootIdent(e)
					if root == nil {
						return 0, ""
					}
					obj := info.Uses[root]
					if obj == nil {
						obj = info.Defs[root]
					}
					if obj == nil {
						return 0, ""
					}
					txt := exprString(e)
					if recv != nil && obj == recv {
						if _, isIdent := e.(*ast.Ident); isIdent {
							return 0, "" // rebinding the receiver variable itself is local
						}
						return 1, txt
					}
					if v, ok := obj.(*types.Var); ok {
						if tpkg != nil && v.Parent() == tpkg.Scope() {
							return 3, txt
						}
						// captured: declared outside the innermost enclosing function literal
						if len(litStack) > 0 {
							lit := litStack[len(litStack)-1]
							if v.Pos() < lit.Pos() || v.Pos() > lit.End() {
								// parameters of the literal itself are inside its range
								return 2, txt
							}
						}
					}
					return 0, ""
				}
				add := func(kind int, target string, pos token.Pos) {
					p := fset.Position(pos)
					rows = append(rows, row{fname, target, kind, lockedFrom != token.NoPos && pos > lockedFrom, p.Filename[strings.LastIndex(p.Filename, "/")+1:], p.Line})
				}
				visit = func(n ast.Node) bool {
					switch x := n.(type) {
					case *ast.FuncLit:
						litStack = append(litStack, x)
						ast.Inspect(x.Body, visit)
						litStack = litStack[:len(litStack)-1]
						return false
					case *ast.AssignStmt:
						if x.Tok != token.DEFINE {
							for _, l := range x.Lhs {
								if id, ok := l.(*ast.Ident); ok && id.Name == "_" {
									continue
								}
								if k, t := classify(l); k != 0 {
									add(k, t, x.Pos())
								}
							}
						}
					case *ast.IncDecStmt:
						if k, t := classify(x.X); k != 0 {
							add(k, t, x.Pos())
						}
					case *ast.CallExpr:
						if id, ok := x.Fun.(*ast.Ident); ok && id.Name == "append" && len(x.Args) > 0 {
							if k, t := classify(x.Args[0]); k != 0 {
								if _, isIdent := x.Args[0].(*ast.Ident); !(isIdent && k == 2) || true {
									add(4, t, x.Pos())
								}
							}
						}
					}
					return true
				}
				ast.Inspect(fd.Body, visit)
			}
		}
	}
	sort.Slice(rows, func(i, j int) bool {
		if rows[i].fn != rows[j].fn {
			return rows[i].fn < rows[j].fn
		}
		if rows[i].target != rows[j].target {
			return rows[i].target < rows[j].target
		}
		return rows[i].kind < rows[j].kind
	})
	var b strings.Builder
	b.WriteString("(* GenFootprint.v -- GENERATED by tools/genfootprint from /repo/*.go. Do not edit. *)\n")
	b.WriteString("From Coq Require Import List String ZArith.\nImport ListNotations.\nLocal Open Scope string_scope.\n")
	b.WriteString("(* (function, written target, kind, inside a region holding a receiver-rooted lock) *)\n")
	b.WriteString("Definition footprint : list (string * string * Z * bool) := [\n")
	seen := map[string]bool{}
	var lines []string
	for _, r := range rows {
		l := fmt.Sprintf("  (%q, %q, %d%%Z, %v)", r.fn, r.target, r.kind, r.locked)
		if !seen[l] {
			seen[l] = true
			lines = append(lines, l)
		}
	}
	b.WriteString(strings.Join(lines, ";\n"))
	b.WriteString("\n].\n")
	if *out == "" {
		fmt.Print(b.String())
		return
	}
	old, _ := os.ReadFile(*out)
	if string(old) != b.String() {
		os.WriteFile(*out, []byte(b.String()), 0o644)
	}
}

func rootIdent(e ast.Expr) *ast.Ident {
	for {
		switch x := e.(type) {
		case *ast.Ident:
			return x
		case *ast.SelectorExpr:
			e = x.X
		case *ast.IndexExpr:
			e = x.X
		case *ast.StarExpr:
			e = x.X
		case *ast.ParenExpr:
			e = x.X
		case *ast.SliceExpr:
			e = x.X
		default:
			return nil
		}
	}
}

func exprString(e ast.Expr) string {
	switch x := e.(type) {
	case *ast.Ident:
		return x.Name
	case *ast.SelectorExpr:
		return exprString(x.X) + "." + x.Sel.Name
	case *ast.IndexExpr:
		return exprString(x.X) + "[]"
	case *ast.StarExpr:
		return "*" + exprString(x.X)
	case *ast.ParenExpr:
		return exprString(x.X)
	case *ast.SliceExpr:
		return exprString(x.X) + "[:]"
	}
	return "?"
}

module genfootprint

go 1.18

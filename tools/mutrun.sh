#!/bin/bash
# usage: mutrun.sh <seeded id> <property> [tier]  -- apply a seeded change to /repo, run the check, undo it
id=$1; prop=$2; tier=${3:-quick}
git -C /repo apply /verif/seeded/$id/patch.diff || { echo "cannot apply $id"; exit 9; }
VERIF_TIER=$tier /verif/check $prop > /tmp/mutrun_$id_$prop.log 2>&1; rc=$?
git -C /repo checkout -- .
echo "$id $prop rc=$rc $(grep -m1 VIOLATION /tmp/mutrun_$id_$prop.log | cut -c1-160)"

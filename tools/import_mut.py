#!/usr/bin/env python3
"""import_mut.py <srcdir> <round> <validation log>: copy validated agent changes
<srcdir>/Cxx/out/m<k> to seeded/Cxx_r<round>m<k>/ (patch.diff, demo, meta.json)."""
import json, os, re, shutil, sys
src, rnd, vlog = sys.argv[1], sys.argv[2], sys.argv[3]
V = os.path.dirname(os.path.dirname(os.path.abspath(__file__)))
ok = {}
for l in open(vlog):
    m = re.match(r"(C\d+)_m(\d) clean_demo_pass=(\d)/3 suite_pass=(\d)/4 mutant_demo_fail=(\d)/3", l)
    if m:
        ok[(m.group(1), m.group(2))] = (m.group(3), m.group(4), m.group(5))
n = 0
for (pid, k), (c, s, f) in sorted(ok.items()):
    d = os.path.join(src, pid, "out", "m" + k)
    if not (c == "3" and s == "4" and f == "3"):
        print("skip", pid, k, c, s, f)
        continue
    dst = os.path.join(V, "seeded", "%s_r%sm%s" % (pid, rnd, k))
    os.makedirs(dst, exist_ok=True)
    shutil.copy(os.path.join(d, "patch.diff"), os.path.join(dst, "patch.diff"))
    shutil.copy(os.path.join(d, "zz_demo_test.go"), os.path.join(dst, "zz_demo_test.go.txt"))
    where = open(os.path.join(d, "where.txt")).read().strip() if os.path.exists(os.path.join(d, "where.txt")) else "."
    summ = ""
    sp = os.path.join(src, pid, "out", "SUMMARY.txt")
    if os.path.exists(sp):
        summ = open(sp, errors="replace").read()
        shutil.copy(sp, os.path.join(V, "seeded", "_summaries", "%s_round%s.txt" % (pid, rnd)))
    json.dump({"id": "%s_r%sm%s" % (pid, rnd, k), "round": int(rnd), "breaks_property": pid,
               "demo_file": "zz_demo_test.go.txt (place as zz_demo_test.go in %s of the repository)" % where,
               "demo_dir": where, "needs_to_manifest": summ[:6000],
               "validated": "validated against /repo HEAD in a scratch worktree: patch applies; go build ./... ok; unedited suite passes 4/4 runs with the patch; demo fails 3/3 with the patch and passes 3/3 without (tools/validate_mut.sh)"},
              open(os.path.join(dst, "meta.json"), "w"), indent=1)
    n += 1
print("imported", n)

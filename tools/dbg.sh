#!/bin/bash
# usage: dbg.sh stream seed n idx  -> prints model vs observed for first op of case idx
set -e
rm -rf /tmp/hdbg && /verif/.bin/harness_ins -stream $1 -seed $2 -n $3 -only $4 -out /tmp/hdbg
cd /tmp/hdbg
f=cases_$1_0.v
sed -i 's/CheckResolver Monitors Monitors2\./CheckResolver Monitors Monitors2 Debug./; s/^Definition result.*$/Definition result := Eval vm_compute in (map (fun c => dbg_first (snd c)) cases)./' $f
coqc -Q /verif/coq ArgMapper $f 2>&1 | head -${5:-60}
python3 -c "
import json
m=json.load(open('/tmp/hdbg/meta_$1.json'))
print(m['cases'][0]['text'])"

#!/bin/bash
# run every check under several seeds on the unchanged tree: any VIOLATION is a false alarm of the machinery (or a new genuine defect) to triage
out=/tmp/seedsweep.log; : > $out
for seed in "$@"; do
  for p in C01 C02 C03 C04 C05 C06 C07 C08 C09 C10 C11 C12 C13 C14 C15 C16 C17 C18 C19 C20; do
    r=$(VERIF_SEED=$seed /verif/check $p 2>&1 | grep -E "VIOLATION|held" | tail -1 | cut -c1-170)
    echo "seed=$seed $p $r" >> $out
  done
done
echo SWEEP_DONE >> $out

module instrument

go 1.18

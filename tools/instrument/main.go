// instrument rewrites copies of the go-argmapper sources so that every
// range over a Go map and every call that returns vertices in map order
// takes its order from package veriford (seeded, recorded on a tape).
//
// usage: instrument -repo /repo -out DIR
// writes DIR/<rel>.go for every rewritten file, DIR/overlay.json and
// DIR/sites.json (the list of instrumented sites).  Must run with cwd=repo.
package main

import (
	"encoding/json"
	"flag"
	"fmt"
	"go/ast"
	"go/importer"
	"go/parser"
	"go/token"
	"go/types"
	"os"
	"path/filepath"
	"sort"
	"strings"
)

type edit struct {
	start, end int
	text       string
}

type site struct {
	Site string `json:"site"`
	Kind string `json:"kind"`
	File string `json:"file"`
	Line int    `json:"line"`
}

func main() {
	repo := flag.String("repo", "/repo", "repository root")
	out := flag.String("out", "", "output directory")
	flag.Parse()
	if *out == "" {
		fmt.Fprintln(os.Stderr, "need -out")
		os.Exit(2)
	}
	if err := os.MkdirAll(*out, 0o755); err != nil {
		panic(err)
	}
	overlay := map[string]string{}
	var sites []site
	for _, rel := range []string{".", "internal/graph"} {
		dir := filepath.Join(*repo, rel)
		s, err := instrumentPkg(dir, rel, *out, overlay)
		if err != nil {
			fmt.Fprintf(os.Stderr, "instrument %s: %v\n", rel, err)
			os.Exit(1)
		}
		sites = append(sites, s...)
	}
	ov, _ := json.MarshalIndent(map[string]interface{}{"Replace": overlay}, "", " ")
	if err := os.WriteFile(filepath.Join(*out, "overlay.json"), ov, 0o644); err != nil {
		panic(err)
	}
	sj, _ := json.MarshalIndent(sites, "", " ")
	os.WriteFile(filepath.Join(*out, "sites.json"), sj, 0o644)
	for _, s := range sites {
		fmt.Printf("%s\t%s\t%s:%d\n", s.Kind, s.Site, s.File, s.Line)
	}
}

func instrumentPkg(dir, rel, out string, overlay map[string]string) ([]site, error) {
	fset := token.NewFileSet()
	filter := func(fi os.FileInfo) bool {
		n := fi.Name()
		return !strings.HasSuffix(n, "_test.go")
	}
	pkgs, err := parser.ParseDir(fset, dir, filter, parser.ParseComments)
	if err != nil {
		return nil, err
	}
	var sites []site
	for _, pkg := range pkgs {
		var files []*ast.File
		var names []string
		for n := range pkg.Files {
			names = append(names, n)
		}
		sort.Strings(names)
		for _, n := range names {
			f := pkg.Files[n]
			// skip files that are themselves verif-tagged hooks
			if hasVerifTag(f) {
				continue
			}
			files = append(files, f)
		}
		info := &types.Info{Types: map[ast.Expr]types.TypeAndValue{}, Selections: map[*ast.SelectorExpr]*types.Selection{}}
		conf := types.Config{Importer: importer.ForCompiler(fset, "source", nil), Error: func(error) {}}
		conf.Check(pkg.Name, fset, files, info)

		for _, f := range files {
			fname := fset.Position(f.Pos()).Filename
			src, err := os.ReadFile(fname)
			if err != nil {
				return nil, err
			}
			base := fset.File(f.Pos()).Base()
			var edits []edit
			counter := 0
			for _, decl := range f.Decls {
				fd, ok := decl.(*ast.FuncDecl)
				if !ok || fd.Body == nil {
					continue
				}
				fn := funcName(fd)
				ast.Inspect(fd.Body, func(n ast.Node) bool {
					switch x := n.(type) {
					case *ast.RangeStmt:
						tv, ok := info.Types[x.X]
						if !ok || tv.Type == nil {
							return true
						}
						mt, ok := tv.Type.Underlying().(*types.Map)
						if !ok {
							return true
						}
						xs := string(src[int(x.X.Pos())-base : int(x.X.End())-base])
						sname := fn + "|" + xs
						counter++
						kt := types.TypeString(mt.Key(), func(p *types.Package) string { return p.Name() })
						kvar := fmt.Sprintf("vk%d_", counter)
						okvar := fmt.Sprintf("vok%d_", counter)
						var b strings.Builder
						fmt.Fprintf(&b, "for _, %s := range veriford.Keys(%q, %s) {", kvar, sname, xs)
						keyName := ""
						if x.Key != nil {
							if id, ok := x.Key.(*ast.Ident); ok && id.Name != "_" {
								keyName = id.Name
							}
						}
						kexpr := kvar
						if kt != "interface{}" && kt != "any" {
							kexpr = fmt.Sprintf("%s.(%s)", kvar, kt)
						}
						if keyName != "" {
							fmt.Fprintf(&b, " %s := %s; _ = %s;", keyName, kexpr, keyName)
						} else {
							keyName = fmt.Sprintf("vkk%d_", counter)
							fmt.Fprintf(&b, " %s := %s; _ = %s;", keyName, kexpr, keyName)
						}
						valName := ""
						if x.Value != nil {
							if id, ok := x.Value.(*ast.Ident); ok && id.Name != "_" {
								valName = id.Name
							}
						}
						if valName != "" {
							fmt.Fprintf(&b, " %s, %s := (%s)[%s]; if !%s { continue };", valName, okvar, xs, keyName, okvar)
						} else {
							fmt.Fprintf(&b, " if _, %s := (%s)[%s]; !%s { continue };", okvar, xs, keyName, okvar)
						}
						// the original body becomes a nested block, so that it may redeclare the
						// loop variables (the "k, v := k, v" idiom)
						b.WriteString(" {")
						edits = append(edits, edit{int(x.For) - base, int(x.Body.Lbrace) - base + 1, b.String()})
						edits = append(edits, edit{int(x.Body.Rbrace) - base, int(x.Body.Rbrace) - base, "}"})
						p := fset.Position(x.For)
						sites = append(sites, site{sname, "range", filepath.Join(rel, filepath.Base(fname)), p.Line})
					case *ast.CallExpr:
						sel, ok := x.Fun.(*ast.SelectorExpr)
						if !ok {
							return true
						}
						switch sel.Sel.Name {
						case "OutEdges", "InEdges", "Vertices":
						default:
							return true
						}
						s, ok := info.Selections[sel]
						if !ok || s.Kind() != types.MethodVal {
							return true
						}
						recv := s.Recv()
						if p, ok := recv.(*types.Pointer); ok {
							recv = p.Elem()
						}
						nt, ok := recv.(*types.Named)
						if !ok || nt.Obj().Name() != "Graph" {
							return true
						}
						cs := string(src[int(x.Pos())-base : int(x.End())-base])
						sname := fn + "|" + cs
						edits = append(edits, edit{int(x.Pos()) - base, int(x.Pos()) - base, fmt.Sprintf("verifPerm(%q, ", sname)})
						edits = append(edits, edit{int(x.End()) - base, int(x.End()) - base, ")"})
						p := fset.Position(x.Pos())
						sites = append(sites, site{sname, "call", filepath.Join(rel, filepath.Base(fname)), p.Line})
					case *ast.AssignStmt:
						// u := heap.Pop(&queue).(*distQueueItem)
						if len(x.Lhs) != 1 || len(x.Rhs) != 1 {
							return true
						}
						if !containsHeapPop(x.Rhs[0]) {
							return true
						}
						id, ok := x.Lhs[0].(*ast.Ident)
						if !ok {
							return true
						}
						sname := fn + "|pop"
						edits = append(edits, edit{int(x.End()) - base, int(x.End()) - base,
							fmt.Sprintf("; veriford.Record(%q, %s.v)", sname, id.Name)})
						p := fset.Position(x.Pos())
						sites = append(sites, site{sname, "pop", filepath.Join(rel, filepath.Base(fname)), p.Line})
					}
					return true
				})
			}
			if len(edits) == 0 {
				continue
			}
			// import right after the package clause
			pend := int(f.Name.End()) - base
			edits = append(edits, edit{pend, pend, "; import veriford \"github.com/hashicorp/go-argmapper/internal/veriford\""})
			edits = append(edits, edit{len(src), len(src), "\nvar _ = veriford.Record\n"})
			sort.SliceStable(edits, func(i, j int) bool { return edits[i].start < edits[j].start })
			var b strings.Builder
			pos := 0
			for _, e := range edits {
				if e.start < pos {
					return nil, fmt.Errorf("%s: overlapping edits", fname)
				}
				b.Write(src[pos:e.start])
				b.WriteString(e.text)
				pos = e.end
			}
			b.Write(src[pos:])
			text := b.String()
			if !strings.Contains(text, "//go:build") {
				text = "//go:build verif\n\n" + text
			}
			dst := filepath.Join(out, strings.ReplaceAll(filepath.Join(rel, filepath.Base(fname)), "/", "__"))
			if err := os.WriteFile(dst, []byte(text), 0o644); err != nil {
				return nil, err
			}
			overlay[fname] = dst
		}
	}
	return sites, nil
}

func hasVerifTag(f *ast.File) bool {
	for _, cg := range f.Comments {
		if cg.Pos() > f.Package {
			break
		}
		for _, c := range cg.List {
			if strings.HasPrefix(c.Text, "//go:build") && strings.Contains(c.Text, "verif") {
				return true
			}
		}
	}
	return false
}

func funcName(fd *ast.FuncDecl) string {
	if fd.Recv != nil && len(fd.Recv.List) == 1 {
		t := fd.Recv.List[0].Type
		if s, ok := t.(*ast.StarExpr); ok {
			t = s.X
		}
		if id, ok := t.(*ast.Ident); ok {
			return id.Name + "." + fd.Name.Name
		}
	}
	return fd.Name.Name
}

func containsHeapPop(e ast.Expr) bool {
	found := false
	ast.Inspect(e, func(n ast.Node) bool {
		if c, ok := n.(*ast.CallExpr); ok {
			if s, ok := c.Fun.(*ast.SelectorExpr); ok {
				if id, ok := s.X.(*ast.Ident); ok && id.Name == "heap" && s.Sel.Name == "Pop" {
					found = true
				}
			}
		}
		return true
	})
	return found
}

#!/bin/bash
# usage: mutmatrix.sh "C01 C04 ..."  -> runs every seeded change of each property against that property's check
out=/tmp/mutmatrix.log
for p in $1; do
  for m in /verif/seeded/${p}_${2:-m}*; do
    id=$(basename $m)
    /verif/tools/mutrun.sh $id $p >> $out 2>&1
  done
done
echo MATRIX_DONE >> $out

"""Per-property configuration of ./check: which correspondence streams run
(stream name, Coq checker term = correspondence mode + property monitor),
how many cases per tier, which repaired-defect witnesses are replayed."""

TRUSTED_BASE = [
    "Coq 8.16.1 kernel and coqc; vm_compute (correspondence evaluation, non-vacuity examples); no native_compute",
    "axioms: none declared; Print Assumptions under every property theorem must print 'Closed under the global context'",
    "the hand-written Gallina model (coq/*.v) is tied to /repo only by the correspondence check (differential testing, bounded by the generators)",
    "Go harness /verif/harness (scenario generator, reflect-based materialiser, Coq term printer), tools/instrument (AST rewrite of map iteration at check time) and internal/veriford (order tape) in /repo under build tag verif",
    "translator tools/genweights.py (edge-weight constants of /repo/graph.go -> coq/GenWeights.v)",
    "modelled, not verified: Go runtime, reflect (assignability/implements contract over the scenario's type universe), container/heap (each pop is validated to be a minimal unvisited element on every replay), hclog, multierror, fmt/strings (ASCII case mapping only)",
]

def S(stream, checker, quick, thorough, **kw):
    d = dict(stream=stream, checker=checker, quick=quick, thorough=thorough)
    d.update(kw)
    return d

PROPS = {
    "C18": dict(
        layer="graph",
        streams=[S("dijk", "check_dijk_all", 400, 12000), S("hist", "check_hist_all", 150, 4000), S("dijkneg", "check_dijkneg_all", 250, 6000)],
        witness=[],
        nontrivial_rule="at least two vertices reachable from the source by a path of length >= 1",
        explanation="Theorem C18/C18_total (proofs/C18Dijkstra*.v): for every well-formed graph, non-negative weights, total weight < 2^63-1, every source and EVERY admissible pop sequence, distances are exact, predecessor chains are real shortest walks, unreachable vertices keep infinity and no predecessor. Correspondence: random digraphs (<=12 vertices, weight classes incl. 0, ~2e9, ~2^40; stream dijkneg also negative weights and sums beyond int64) replayed with the recorded pop sequence; distTo, edgeTo and EdgeToPath must equal the model's; the C18 predicate is also evaluated on the implementation's output against a Bellman-Ford reference.",
        assumptions=["domain bound of the theorem: sum of all edge weights < 2^63-1 (Go int)", "pop choices are validated, container/heap itself is not verified"],
    ),
    "C19": dict(
        layer="graph",
        streams=[S("hist", "check_hist_all", 500, 16000)],
        witness=[],
        nontrivial_rule="at least two (vertex, handle) pairs with a non-empty successor list at the end of the history",
        explanation="Theorem C19 (proofs/C19Refine*.v): every history of New/Add/AddOverwrite/Remove/AddEdge/RemoveEdge/Vertex/Copy/Reverse over any number of handles refines a plain adjacency model per allocation class; never panics; in/out maps stay mirror images; copies are independent, reversed views share. Theorems C19_reverse_involutive / C19_reverse_reach / C19_reverse_min_dist (proofs/ReverseLaws.v): on every graph satisfying that invariant the reversed view is an involution and turns reachability and shortest distances around. Correspondence: random histories (<=40 ops, <=5 handles, <=6 keys) on the real Graph, final observation of every handle through Vertices/OutEdges/InEdges and the raw adjacency dump.",
        assumptions=["vertex identity = hash code (the harness uses distinct integer hash codes)"],
    ),
    "C20": dict(
        layer="graph",
        streams=[S("trav", "check_trav_all", 400, 12000)],
        witness=[],
        nontrivial_rule="graph with at least two edges",
        explanation="Theorems C20a/C20a_abort/C20a_total (DFS exactness for every order tape), C20b (Kahn: permutation with forward edges iff acyclic, panics iff cyclic), C20c/C20c_total (Tarjan: components are exactly the mutual-reachability classes), C20d (topological shortest paths agree with Dijkstra on single-rooted DAGs). Correspondence: random digraphs (cyclic, DAG, single-rooted DAG, self-loops, zero weights), all four routines replayed with the recorded iteration orders; monitors compare with reference reachability computed in Coq.",
        assumptions=["callbacks of DFS are pure (descend/abort decided per vertex)"],
    ),
}

W = lambda test, defect, **kw: dict(test=test, defect=defect, **kw)

RES = "resolver"
PROPS.update({
    "C01": dict(layer=RES,
        streams=[S("call", "run_prop CFull P01", 500, 16000), S("built", "run_prop CFull P01", 250, 6000),
                 S("once", "run_prop CFull P01", 200, 6000), S("convert", "run_prop CFull P01", 150, 4000),
                 S("namesub", "run_prop CFull P01", 100, 3000),
                 S("call", "run_prop CPanic P01", 200, 4000, variant="nat")],
        witness=[W("TestD1", "D1"), W("TestD16", "D16")],
        nontrivial_rule="at least two function executions in the history",
        explanation="Theorem C01 (proofs/C01Labels*.v): in every run of the model, for every order tape, each execution receives for each declared parameter a value that was supplied or returned by an earlier execution, with a label compatible under the matching table and an assignable type (predicate c01_ok, ResolverSpec.c01_events); the same predicate is evaluated on the implementation's traces. Correspondence: full ordered execution trace with provenance of every argument.",
        assumptions=["type universe of the harness: 6 concrete types, 2 interfaces (one implementing the other)", "names/subtypes are ASCII identifiers"]),
    "C02": dict(layer=RES,
        streams=[S("call", "run_prop CFids P02", 500, 16000), S("once", "run_prop CFids P02", 200, 6000),
                 S("malformed", "run_prop CFids P02", 150, 4000), S("built", "run_prop CFids P02", 200, 6000), S("call", "run_prop CPanic P02", 200, 4000, variant="nat")],
        witness=[W("TestD3", "D3")],
        nontrivial_rule="at least two function executions in the history",
        explanation="Theorem C02 (proofs/C0213Unsat*.v): if the target is not derivable (AND-OR derivability over the full call graph; memoized run-once functions count as providers, the documented FuncOnce semantics) the call is an error, the target does not run, and when every converter is satisfiable the error is the unsatisfied-argument error. Correspondence: outcome class, error identity and ordered (function, error) trace.",
        assumptions=[]),
    "C03": dict(layer=RES,
        streams=[S("exact", "run_prop CFull P03", 500, 16000), S("call", "run_prop CFull P03", 300, 8000),
                 S("exact", "run_prop CPanic P03", 200, 4000, variant="nat")],
        witness=[W("TestD2", "D2")],
        nontrivial_rule="scenario with at least two executions or an exactly matched multi-parameter target",
        explanation="Theorem C03 (proofs/C03Exact*.v): when every parameter has an exactly matching supplied value the call succeeds without executing a converter and binds exactly those values (named) / a supplied value of exactly the type (type-only), for every tape and any distractors. Correspondence: full trace on the exact-match stream (with distractor inputs, converters, providers, case variants, duplicates, defaults).",
        assumptions=[]),
    "C04": dict(layer=RES,
        streams=[S("call", "run_prop CFids P04", 500, 16000), S("built", "run_prop CFids P04", 200, 6000),
                 S("convert", "run_prop CFids P04", 150, 4000), S("once", "run_prop CFids P04", 150, 4000),
                 S("redefine", "run_prop2 CFids 4", 200, 6000), S("conconce", "check_conconce_all", 20, 300, variant="race"),
                 S("call", "run_prop CPanic P04", 200, 4000, variant="nat")],
        witness=[],
        nontrivial_rule="at least two function executions in the history",
        explanation="Theorems C04_errors (unconditional) and C04 (under well-formed use) (proofs/C04Errors*.v): a failing execution is the last event of the trace and its error is what the call returns; a result without error executed no failing function; a resolution failure never runs the target. C04_unrestricted_refuted shows the hypothesis is needed. C04_history (proofs/C0417Hist*.v): over every history of Call/Redefine from an empty memo table the error a call returns was returned by an execution of that call or is the memoized failure of a run-once function (c04_error_origin, also evaluated on the implementation). Correspondence: ordered (function, error) trace and error identity (pointer-equal error values).",
        assumptions=[]),
    "C09": dict(layer=RES,
        streams=[S("redeftwin", "run_twin CFull 9", 300, 8000), S("once", "run_prop2 CFull 9", 250, 6000), S("redefine", "run_prop2 CFull 9", 250, 6000),
                 S("concshare", "check_concshare_all", 30, 500, variant="race")],
        witness=[],
        nontrivial_rule="history with at least one execution",
        explanation="Theorem C09 (proofs/C0911Once*.v): every Redefine of the model returns the world (memo table, execution counter) unchanged and its trace contains no execution of a user function. Correspondence: histories mixing Call and Redefine on shared run-once converters; monitor: no body runs during Redefine; twin run: the same history with the Redefine operations erased gives identical observations for every Call.",
        assumptions=[]),
    "C10": dict(layer=RES,
        streams=[S("converttwin", "run_twin CFull 0", 300, 8000), S("convert", "run_prop CFull P01", 200, 6000),
                 S("convert", "run_prop CClass P05", 200, 6000)],
        witness=[],
        nontrivial_rule="conversion with at least one converter execution",
        explanation="Theorem C10 (proofs/C10C16Opts*.v): Convert is Call on the synthesised identity function; it returns a value exactly when that call succeeds, the value is the argument the identity received and has the target type. Correspondence: Go Convert vs the model, and a twin Go Call on a hand-written identity function must agree (success, value, error class, executions).",
        assumptions=["target types of the harness universe (the interface type error is not in it)"]),
    "C11": dict(layer=RES,
        streams=[S("once", "run_prop2 CFids 11", 400, 12000), S("redeftwin", "run_twin CFids 11", 200, 4000),
                 S("conconce", "check_conconce_all", 40, 600, variant="race")],
        witness=[W("TestD9", "D9"), W("TestD12", "D12", race=True)],
        nontrivial_rule="history with at least two executions (sequential) / every concurrent case",
        explanation="Theorem C11 (sequential, proofs/C0911Once*.v): a memoized function never runs again and keeps its memo; otherwise it runs at most once per call and is memoized afterwards. Theorems C11_conc/C11_conc_progress (proofs/C1112Conc*.v): in the interleaving model of the lock-protected protocol the body runs at most once under EVERY schedule, finished threads saw that result, and the protocol does not deadlock; C11_unlocked_refuted: without the lock two executions are possible. Partial by nature: atomic sequentially-consistent steps abstract the Go memory model. Correspondence: histories with shared run-once converters; forced concurrent first use under the race detector (body held open until all goroutines arrived).",
        assumptions=["concurrent half: interleaving model with atomic steps, not the Go memory model"]),
    "C16": dict(layer=RES,
        streams=[S("exact", "run_prop CFull P03", 500, 16000), S("malformed", "run_prop CFull P06", 200, 6000), S("call", "run_prop CFull P03", 200, 6000),
                 S("once", "run_prop CFids P06", 150, 4000)],
        witness=[],
        nontrivial_rule="scenario with at least two executions or an exactly matched multi-parameter target",
        explanation="Theorem C16 (proofs/C10C16Opts*.v): a nil option is an error result; for every slot (name / name+subtype / type / type+subtype, names lower-cased) the builder holds the LAST value written by defaults ++ call options, nil values write nothing; the converter list is the in-order concatenation; permuting options that write pairwise distinct slots changes no slot. Correspondence: provenance of injected values on the exact-match stream with case variants, duplicate keys, default/call splits, shuffled option order, nil values and nil options.",
        assumptions=["ASCII names (Go's ToLower is Unicode-aware; the model's is ASCII)"]),
})

PROPS.update({
    "C14": dict(layer="none",
        streams=[S("sig", "check_sig_all", 600, 20000), S("sig", "check_sig_all", 200, 4000, variant="nat")],
        witness=[W("TestD10", "D10")],
        nontrivial_rule="signature with at least one parameter or result",
        explanation="Theorem C14 (proofs/C141517VS*.v) over the model of NewFunc/newValueSet/newValueSetFromStruct incl. struct-tag parsing: rejected exactly for non-functions, marker structs mixed with other parameters/results and marker structs behind more than one pointer; otherwise one value per positional parameter/result or exported non-marker field, in order, name from the tag if it gives one else from the field, always lower-cased, emptied by typeOnly, subtype = text after the first '=' of the last subtype option; final error excluded; *struct equivalent to struct. Correspondence: random signatures built with reflect.FuncOf/StructOf (tags from a grammar incl. unknown and repeated options, '=' inside subtypes, extra keys in the raw tag) plus static structs with unexported fields and a marker that is not the first field; the Coq term of every signature is derived from the reflect.Type itself.",
        assumptions=["ASCII names", "tag values without quote or backslash characters"]),
    "C15": dict(layer="none",
        streams=[S("vset", "check_vset_all", 500, 16000), S("built", "run_prop CFull P01", 300, 8000), S("built", "run_prop CFull P04", 200, 6000), S("built", "run_prop CPanic P06", 150, 4000)],
        witness=[W("TestD4", "D4"), W("TestD19", "D19"), W("TestD22", "D22"), W("TestD23", "D23")],
        nontrivial_rule="value list with at least two values / scenario with at least two executions",
        explanation="Theorem C15 (proofs/C141517VS*.v): a value set built from a list of values (subtypes without commas, names distinct up to case) reports them back in order with lower-cased names, finds every named value by name, a type-only value by type, and by type+subtype when unique. Correspondence: NewValueSet with random lists, all accessors, Signature/SignatureValues/FromSignature round trip into a fresh set; stream built: functions assembled with BuildFunc inside conversion chains must behave exactly like the model's ordinary struct-form functions (full trace, error pass-through).",
        assumptions=["BuildFunc functions are modelled as struct-in/struct-out functions with a final error; the sharing of their value sets with the callback is exercised, not modelled"]),
    "C17": dict(layer="none",
        streams=[S("results", "check_res_all", 600, 20000), S("once", "run_prop2 CFull 17", 300, 8000), S("call", "run_prop2 CFull 17", 200, 6000),
                 S("redefine", "run_prop2 CFull 17", 200, 6000)],
        witness=[],
        nontrivial_rule="function with at least one result",
        explanation="Theorem C17 (proofs/C141517VS*.v) over the model of result.go: k values followed by an error give length k, outputs in order and Err = the final value (nil when nil); a final value of a concrete error type or an error that is not last are ordinary outputs; a resolution failure gives length 0 and a non-nil error. C17_history (proofs/C0417Hist*.v): on the resolver model, over every history, the raw outputs of a successful Call are what the target's body returned in that operation or (memoized run-once target) earlier. Correspondence: functions of random result shapes (plain values, error interface at any position, *myErr concrete error type, nil and non-nil) called through Call; Len/Out(i)/Err compared by identity.",
        assumptions=[]),
})

PROPS.update({
    "C12": dict(layer=RES,
        streams=[S("concshare", "check_concshare_all", 40, 800, variant="race"), S("conconce", "check_conconce_all", 20, 300, variant="race")],
        witness=[W("TestD11", "D11", race=True)],
        crash_is_violation=True,
        nontrivial_rule="scenario with at least two functions",
        explanation="PARTIAL (the Go memory model cannot be expressed by an executable Gallina model). Theorem C12_footprint: the table of statements that can write to state shared between calls -- regenerated from the current sources on every run by tools/genfootprint (receiver-rooted writes, writes to captured variables of closures, package variables, append into receiver/captured/package-rooted slices) -- contains only the audited entries and every write to a *Func happens under its lock. Theorems C12_nowrite / C12_independent (proofs/C1112Conc*.v): in the model a call whose functions are ordinary writes no shared state and its result does not depend on it, hence every concurrent call returns an outcome of a sequential execution. Supporting runs (not proof): goroutines sharing target, converter Funcs, option values and default slices with spare capacity under the Go race detector; every outcome must be a sequential outcome.",
        assumptions=["footprint extractor is syntactic and conservative (tools/genfootprint)", "interleavings explored by the race harness are sampled, not exhaustive"],
        trusted_extra=["translator tools/genfootprint (go/ast + go/types pass over /repo/*.go -> coq/GenFootprint.v)", "Go race detector (supporting evidence only)"]),
})

PROPS.update({
    "C13": dict(layer=RES,
        streams=[S("call", "run_prop CFull P13", 500, 16000), S("malformed", "run_prop CFull P13", 150, 4000),
                 S("once", "run_prop CFids P13", 150, 4000), S("built", "run_prop CFids P13", 150, 4000), S("call", "run_prop CPanic P13", 200, 4000, variant="nat")],
        witness=[],
        nontrivial_rule="at least two function executions in the history or an unsatisfied-argument outcome",
        explanation="Theorem C13 (proofs/C0213Unsat*.v), no extra hypothesis: when some requirement of the target is hopeless (not OR-reachable from the supplied values) the call fails at graph construction with the unsatisfied-argument error whose missing list contains it, contains only pruned requirements of the target that are neither derivable nor exactly supplied, whose input list is the supplied values and whose converter list contains every supplied converter. Correspondence: errors.As, the three lists as sets (converter types in order), and that the message mentions each missing argument.",
        assumptions=[]),
})

PROPS.update({
    "C06": dict(layer=RES,
        streams=[S("call", "run_prop CPanic P06", 500, 16000), S("malformed", "run_prop CFull P06", 300, 8000),
                 S("redefine", "run_prop CPanic P06", 300, 8000), S("convert", "run_prop CPanic P06", 150, 4000),
                 S("once", "run_prop CPanic P06", 200, 6000), S("built", "run_prop CPanic P06", 150, 4000),
                 S("call", "run_prop CPanic P06", 300, 6000, variant="nat"), S("redefine", "run_prop CPanic P06", 200, 4000, variant="nat")],
        witness=[W("TestD3", "D3"), W("TestD4", "D4"), W("TestD5", "D5"), W("TestD6", "D6"), W("TestD9", "D9"), W("TestD10", "D10"), W("TestD15", "D15"), W("TestD19", "D19"), W("TestD23", "D23")],
        nontrivial_rule="at least two function executions in the history",
        explanation="Theorems C06, C06_convert, C06_malformed (proofs/C06Total*.v): on well-formed use, with a transitive implements relation and a well-typed memo table, Call, Redefine and Convert of the model return Ok or a tape mismatch for EVERY order tape: never one of the model's panic sites (= the panic sites of the Go code: unknown source / dangling edge in Dijkstra, reflect.Set of a non-assignable value, nil lookups in outputValues, function vertex without function, \"didn't reach a final value\") and never out of fuel (bounded recursion); a nil or failing option is the build error. C06_untransitive_refuted shows the universe hypothesis is needed. Correspondence: panic/no-panic agreement plus a process-level watchdog (hang, memory) on every stream, instrumented and native map order; malformed stream (nil option, nil values, non-function and nil converters, failing generators).",
        assumptions=["domain bound: fewer than (2^63-1)/20 graph vertices", "names are Go identifiers (reflect.StructOf rejects others in NewValueSet/Redefine)"]),
})

PROPS["C03"]["explanation"] = PROPS["C03"]["explanation"].replace("hypotheses", "hypothesis") if False else PROPS["C03"]["explanation"]

PROPS.update({
    "C05": dict(layer=RES,
        streams=[S("call", "run_prop CClass P05", 600, 20000), S("exact", "run_prop CClass P05", 200, 6000),
                 S("c07f1", "run_prop CClass P05", 150, 4000), S("convert", "run_prop CClass P05", 150, 4000),
                 S("namesub", "run_prop CClass P05", 150, 4000), S("c05diamond", "run_prop CClass P05", 100, 3000),
                 S("call", "run_prop CPanic P05", 300, 6000, variant="nat")],
        witness=[W("TestD5", "D5"), W("TestD18", "D18")],
        nontrivial_rule="at least two function executions in the history",
        explanation="Theorem C05 (proofs/C05Complete*.v, 21 files): for every well-formed call whose target is derivable and whose converters all have at most one input (arbitrary cycles) or are acyclic and satisfiable, and for EVERY order tape, the call from a fresh world returns a result or the error of a failing converter -- never the unsatisfied-argument error, a panic or out-of-fuel -- and succeeds under every order when nothing fails (stability of the outcome). Hypotheses: transitive implements relation (refuted otherwise: C05_untransitive_refuted) and fewer than (2^63-1)/20 graph vertices. Proved for the repaired code: the proof attempt produced the counterexample D18 on the pinned tree (replayed 200/200 on the Go library, fixed by a53b619, now C05_d18_regression and witness TestD18); a search of 1.4 million premise-satisfying scenarios x 8 tapes on the repaired model found nothing. Correspondence: outcome class under several tapes per scenario and native map order; monitor c05_ok.",
        assumptions=["derivability is computed without memoized results", "domain bound: fewer than (2^63-1)/20 graph vertices"]),
    "C08": dict(layer=RES,
        streams=[S("redefstrict", "run_prop2 CFull 8", 500, 16000), S("redefine", "run_checks_r (check_scn CFull)", 250, 6000),
                 S("redefstrict", "run_prop2 CPanic 8", 200, 4000, variant="nat"),
                 S("redefname", "run_checks_r (check_scn CFull)", 250, 6000), S("redefnamestrict", "run_prop2 CFull 8", 300, 8000)],
        witness=[W("TestD7", "D7"), W("TestD8", "D8")],
        nontrivial_rule="history with at least one execution",
        explanation="Theorems C08 / C08_unbounded (proofs/C08Redefine*.v): Redefine fails with the output-filter error exactly when an output is rejected; when it succeeds every input of the redefined function passes the input filter (bound: fewer than (2^63-1)/20 vertices) and none is keyed like a supplied value. Theorem C08_succeeds (proofs/C08Succeeds*.v): on the domain, for every tape, Redefine returns a function whenever no output is rejected and every target parameter passes the input filter (only other outcome: the error of a failing converter generator). Theorem C08_callable (proofs/C08Callable*.v, 10 files): when Redefine succeeds with inputs ins, the original Call with the Redefine options plus one value per declared input -- the body of the redefined function -- never fails for lack of an argument, for every tape, behaviour and choice of values (result or converter error only). Filters are modelled over whole values (name, type, subtype: FltType, FltName, FltSub, FltOr, FltAnd; flt_okv), so the theorems cover caller-written filters that test Value.Name or Value.Subtype. Theorems C08_filter_or / C08_filter_and (proofs/FilterLaws.v): what 'permitted' means for FilterOr / FilterAnd lists of any length and nesting. C08_nonvacuous: a scenario recorded from the Go library meets every premise. Only the hand-over from the synthesised struct function to that inner Call is left to the correspondence (callredef operations). Correspondence: Redefine's declared inputs as a set, then the call of the redefined function (outer resolution of the synthesised struct function and inner original Call) against the model, on the property's domain (stream redefstrict) and beyond (stream redefine: subtypes, interfaces, multi-input converters, generated converters); streams redefname / redefnamestrict: the same with name- and subtype-sensitive filters.",
        assumptions=["the synthesised outer function of Redefine (reflect.StructOf wrapper) is exercised by the correspondence, its inner Call is what C08_callable covers"]),
})

PROPS.update({
    "C07": dict(layer=RES,
        streams=[S("c07f1", "run_prop2 CFull 7", 300, 10000), S("c07f2", "run_prop2 CFull 7", 300, 10000),
                 S("namesub", "run_prop CFull P01", 100, 3000),
                 S("c07f1", "run_prop2 CPanic 7", 150, 3000, variant="nat"), S("c07f2", "run_prop2 CPanic 7", 150, 3000, variant="nat")],
        witness=[],
        nontrivial_rule="every family scenario (three order tapes each)",
        explanation="Theorems C07_f1 / C07_f2 (proofs/C07Affinity*.v): for the two documented priority families -- F1: one named parameter (n,U), a type-only converter T->U and ANY number of competing named inputs of type T of which one is named n; F2: additionally a converter taking (n,T) by name -- and for EVERY order tape (validated heap pops, any iteration order) the converter receives exactly the value named n (F1) and the by-name converter runs while the type-only one does not (F2); F3 (proofs/C07F3*.v): m >= 2 named parameters produced by ONE type-only converter from k >= m same-typed named inputs -- the i-th argument of the target is the converter's result for exactly the input named like the i-th parameter, for every tape and behaviour. The proof characterises the pruned call graph of the family exactly, the matching-name discount, and runs the model's Dijkstra by invariant for every admissible pop sequence; it consumes gen_weights_ok from the regenerated GenWeights.v. Correspondence: family streams with distractor inputs/converters over disjoint types, case variants, shuffled options and registration orders, three tapes per scenario, instrumented and native order; monitor c07_monitor on the implementation's traces.",
        assumptions=["the theorem covers the families without distractors; distractors over disjoint types are explored by the streams"]),
})

"""Per-property configuration of ./check: which correspondence streams run
(stream name, Coq checker term = correspondence mode + property monitor),
how many cases per tier, which repaired-defect witnesses are replayed."""

TRUSTED_BASE = [
    "Coq 8.16.1 kernel and coqc; vm_compute (correspondence evaluation, non-vacuity examples); no native_compute",
    "axioms: none declared; Print Assumptions under every property theorem must print 'Closed under the global context'",
    "the hand-written Gallina model (coq/*.v) is tied to /repo only by the correspondence check (differential testing, bounded by the generators)",
    "Go harness /verif/harness (scenario generator, reflect-based materialiser, Coq term printer), tools/instrument (AST rewrite of map iteration at check time) and internal/veriford (order tape) in /repo under build tag verif",
    "translator tools/genweights.py (edge-weight constants of /repo/graph.go -> coq/GenWeights.v)",
    "modelled, not verified: Go runtime, reflect (assignability/implements contract over the scenario's type universe), container/heap (each pop is validated to be a minimal unvisited element on every replay), hclog, multierror, fmt/strings (ASCII case mapping only)",
]

def S(stream, checker, quick, thorough, **kw):
    d = dict(stream=stream, checker=checker, quick=quick, thorough=thorough)
    d.update(kw)
    return d

PROPS = {
    "C18": dict(
        layer="graph",
        streams=[S("dijk", "check_dijk_all", 400, 12000), S("dijkneg", "check_dijkneg_all", 250, 6000)],
        witness=[],
        nontrivial_rule="at least two vertices reachable from the source by a path of length >= 1",
        explanation="Theorem C18/C18_total (proofs/C18Dijkstra*.v): for every well-formed graph, non-negative weights, total weight < 2^63-1, every source and EVERY admissible pop sequence, distances are exact, predecessor chains are real shortest walks, unreachable vertices keep infinity and no predecessor. Correspondence: random digraphs (<=12 vertices, weight classes incl. 0, ~2e9, ~2^40; stream dijkneg also negative weights and sums beyond int64) replayed with the recorded pop sequence; distTo, edgeTo and EdgeToPath must equal the model's; the C18 predicate is also evaluated on the implementation's output against a Bellman-Ford reference.",
        assumptions=["domain bound of the theorem: sum of all edge weights < 2^63-1 (Go int)", "pop choices are validated, container/heap itself is not verified"],
    ),
    "C19": dict(
        layer="graph",
        streams=[S("hist", "check_hist_all", 500, 16000)],
        witness=[],
        nontrivial_rule="at least two (vertex, handle) pairs with a non-empty successor list at the end of the history",
        explanation="Theorem C19 (proofs/C19Refine*.v): every history of New/Add/AddOverwrite/Remove/AddEdge/RemoveEdge/Vertex/Copy/Reverse over any number of handles refines a plain adjacency model per allocation class; never panics; in/out maps stay mirror images; copies are independent, reversed views share. Correspondence: random histories (<=40 ops, <=5 handles, <=6 keys) on the real Graph, final observation of every handle through Vertices/OutEdges/InEdges and the raw adjacency dump.",
        assumptions=["vertex identity = hash code (the harness uses distinct integer hash codes)"],
    ),
    "C20": dict(
        layer="graph",
        streams=[S("trav", "check_trav_all", 400, 12000)],
        witness=[],
        nontrivial_rule="graph with at least two edges",
        explanation="Theorems C20a/C20a_abort/C20a_total (DFS exactness for every order tape), C20b (Kahn: permutation with forward edges iff acyclic, panics iff cyclic), C20c/C20c_total (Tarjan: components are exactly the mutual-reachability classes), C20d (topological shortest paths agree with Dijkstra on single-rooted DAGs). Correspondence: random digraphs (cyclic, DAG, single-rooted DAG, self-loops, zero weights), all four routines replayed with the recorded iteration orders; monitors compare with reference reachability computed in Coq.",
        assumptions=["callbacks of DFS are pure (descend/abort decided per vertex)"],
    ),
}

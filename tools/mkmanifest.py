#!/usr/bin/env python3
"""Regenerate MANIFEST.json from tools/propconf.py: a property is claimed when
its theorem file coq/props/<id>.v exists and it has a configuration."""
import json, os, sys, subprocess
V = os.path.dirname(os.path.dirname(os.path.abspath(__file__)))
sys.path.insert(0, os.path.join(V, "tools"))
from propconf import PROPS
props = [json.loads(l) for l in open(os.path.join(V, "properties.jsonl"))]
NA = json.load(open(os.path.join(V, "tools", "not_applicable.json"))) if os.path.exists(os.path.join(V, "tools", "not_applicable.json")) else {}
checks, na = [], []
for p in props:
    pid = p["id"]
    if pid in PROPS and os.path.exists(os.path.join(V, "coq", "props", pid + ".v")):
        c = PROPS[pid]
        checks.append({
            "property_id": pid,
            "quick_cmd": "./check %s --tier quick" % pid,
            "thorough_cmd": "./check %s --tier thorough" % pid,
            "evidence_file": "evidence/%s.json" % pid,
            "replay_cmd_template": "./check %s --replay {path}" % pid,
            "engine": "coq-model+replay",
            "level_claimed": {"category": "proof", "text": c["explanation"], "design_ref": "DESIGN.md section 6 (%s)" % pid},
            "level_note": "Theorems are about the hand-written Gallina model; the model is tied to /repo on every run by the exact-replay correspondence check (differential testing bounded by the generators) and, where stated, by translators regenerating model parts from the sources. Trusted: Coq kernel, vm_compute, harness, instrumenter, reflect/runtime contracts. " + "; ".join(c.get("assumptions", [])),
            "technique": "machine-checked proof in Coq 8.16 over an executable model + exact-replay correspondence with the Go implementation",
        })
    else:
        na.append({"property_id": pid, "reason": NA.get(pid, "check under construction at this commit (model, monitors and correspondence exist; theorem file not yet closed); see DESIGN.md")})
log = subprocess.check_output(["git", "-C", "/repo", "log", "--format=%H %s"]).decode().splitlines()
man = {"version": 1, "setup_cmd": "./setup.sh",
       "hooks": {"guard": "verif", "enable": "go build -tags verif (plus -overlay with order-instrumented copies generated at check time)",
                 "baseline_off_cmd": "cd /repo && GOFLAGS=-mod=mod go test -json -vet=off -count=1 -timeout 25m ./...",
                 "source_commits": [l.split()[0] for l in log if l.split(" ", 1)[1].startswith("verif hooks")], "add_only": True},
       "engines": [{"name": "coq-model+replay", "path": "coq/, harness/, tools/", "serves_properties": [c["property_id"] for c in checks],
                    "kind_free_text": "Coq 8.16 proofs over an executable model; a Go harness replays the implementation with recorded iteration orders and coqc evaluates model and property monitors on the same cases"}],
       "checks": checks,
       "notes": "See DESIGN.md. Genuine defects repaired by fix: commits are listed in known_findings.txt (fixed: entries) and replayed by witness tests on every run.",
       "not_applicable": na}
json.dump(man, open(os.path.join(V, "MANIFEST.json"), "w"), indent=1)
print("claimed:", [c["property_id"] for c in checks])

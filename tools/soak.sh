#!/bin/bash
# soak: many seeds of every resolver stream through the full correspondence + all monitors
out=/tmp/soak.log; : > $out
H=$(ls -t /verif/.cache/*/harness_ins | head -1)
for seed in $(seq 101 ${1:-110}); do
 for st in call exact malformed convert once redefine redefstrict; do
  d=/tmp/soak_$st_$seed; rm -rf $d
  $H -stream $st -checker "run_checks_r (fun s => let a := check_prop CFull P01 s in if negb (a =? 0)%Z then a else let b := check_prop CFull P02 s in if negb (b =? 0)%Z then b else let c := check_prop CFull P03 s in if negb (c =? 0)%Z then c else let d := check_prop CFull P04 s in if negb (d =? 0)%Z then d else let e := check_prop CFull P05 s in if negb (e =? 0)%Z then e else let f := check_prop CFull P06 s in if negb (f =? 0)%Z then f else check_prop CFull P13 s)" -n 600 -seed $seed -shards 4 -out $d >/dev/null 2>&1 || echo "$st $seed HARNESS_FAIL" >> $out
  for f in $d/cases_*.v; do (cd $d && coqc -Q /verif/coq ArgMapper $f 2>&1 | tr -d '\n' | sed "s/^/$st $seed $(basename $f) /" ; echo) >> $out & done; wait
  rm -rf $d
 done
done
echo SOAK_DONE >> $out

#!/bin/bash
# validate every mutation produced by the agents against the CURRENT /repo HEAD
export GOFLAGS=-mod=mod GOPROXY=off GOSUMDB=off GOTOOLCHAIN=local
W=/tmp/mutval
rm -rf $W; git -C /repo worktree prune; git -C /repo worktree add -q --detach $W HEAD
SRC=${1:-/tmp/mut}
for d in $SRC/C*/out/m[0-9]; do
  id=$(echo $d | sed "s#$SRC/\(C[0-9]*\)/out/\(m[0-9]\)#\1_\2#")
  if [ -n "$ONLY" ] && ! [[ $id =~ ^($ONLY)_ ]]; then continue; fi
  [ -f $d/patch.diff ] || { echo "$id NOPATCH"; continue; }
  where=$(cat $d/where.txt 2>/dev/null | tr -d '[:space:]'); [ -z "$where" ] && where=.
  cd $W && git checkout -q -- . && git clean -fdq
  if ! git apply --check $d/patch.diff 2>/dev/null; then echo "$id PATCH_DOES_NOT_APPLY"; continue; fi
  # clean tree + demo must pass
  cp $d/zz_demo_test.go $W/$where/zz_demo_test.go
  cpass=0; for i in 1 2 3; do timeout 300 go test -vet=off -count=1 -run 'Demo|ZZ' ./$where >/dev/null 2>&1 && cpass=$((cpass+1)); done
  rm -f $W/$where/zz_demo_test.go
  git apply $d/patch.diff
  if ! go build ./... 2>/dev/null; then echo "$id BUILD_FAILS"; continue; fi
  spass=0; for i in 1 2 3 4; do go test -vet=off -count=1 ./... >/dev/null 2>&1 && spass=$((spass+1)); done
  cp $d/zz_demo_test.go $W/$where/zz_demo_test.go
  mfail=0; for i in 1 2 3; do timeout 300 go test -vet=off -count=1 -run 'Demo|ZZ' ./$where >/dev/null 2>&1 || mfail=$((mfail+1)); done
  rm -f $W/$where/zz_demo_test.go
  echo "$id clean_demo_pass=$cpass/3 suite_pass=$spass/4 mutant_demo_fail=$mfail/3"
done
cd /; git -C /repo worktree remove --force $W

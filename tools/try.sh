#!/bin/bash
# usage: try.sh stream checker n seed
rm -rf /tmp/htry && /verif/.bin/harness_ins -stream $1 -checker "$2" -n ${3:-300} -seed ${4:-1} -out /tmp/htry && cd /tmp/htry && coqc -Q /verif/coq ArgMapper cases_$1_0.v 2>&1 | tail -8

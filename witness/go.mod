module wit

go 1.14

require (
	github.com/hashicorp/go-argmapper v0.0.0
	github.com/hashicorp/go-hclog v0.14.0
)

replace github.com/hashicorp/go-argmapper => /repo

package wit

import (
	"runtime"
	"time"
)

func runtimeGosched() { runtime.Gosched(); time.Sleep(time.Microsecond) }

package wit

import (
	"errors"
	"fmt"
	"reflect"
	"sync"
	"testing"

	am "github.com/hashicorp/go-argmapper"
	"github.com/hashicorp/go-hclog"
)

type T int
type U int
type P int
type Q int
type R int
type A int
type B int
type C int

var nolog = am.Logger(hclog.NewNullLogger())

func TestD1(t *testing.T) {
	f := am.MustFunc(am.NewFunc(func(in struct {
		am.Struct
		A T
	}) int {
		return int(in.A)
	}))
	r := f.Call(nolog, am.NamedSubtype("b", T(5), "st"))
	if r.Err() == nil {
		t.Fatalf("named param a received value named b: %v", r.Out(0))
	}
}

func TestD2(t *testing.T) {
	for i := 0; i < 2000; i++ {
		ran := false
		f := am.MustFunc(am.NewFunc(func(in struct {
			am.Struct
			A U
		}) int {
			return int(in.A)
		}))
		r := f.Call(nolog, am.Named("a", U(1)), am.NamedSubtype("a", T(7), "st"),
			am.Converter(func(in struct {
				am.Struct
				A T
			}) struct {
				am.Struct
				A U
			} {
				ran = true
				return struct {
					am.Struct
					A U
				}{A: U(100)}
			}))
		if r.Err() != nil {
			t.Fatal(r.Err())
		}
		if ran || r.Out(0).(int) != 1 {
			t.Fatalf("iteration %d: converter ran=%v out=%v", i, ran, r.Out(0))
		}
	}
}

func TestD4(t *testing.T) {
	f, err := am.NewFunc(func(a, b int) int { return a + b })
	if err != nil {
		t.Fatal(err)
	}
	r := f.Call(nolog, am.Typed(int(3)))
	if r.Err() != nil {
		t.Fatal(r.Err())
	}
	if r.Out(0).(int) != 6 {
		t.Fatal(r.Out(0))
	}
	// output side
	g := am.MustFunc(am.NewFunc(func(in int) (int, int) { return in, in + 1 }))
	r = g.Call(nolog, am.Typed(int(3)))
	if r.Err() != nil || r.Len() != 2 || r.Out(1).(int) != 4 {
		t.Fatal(r.Err(), r.Len())
	}
	// as converter
	h := am.MustFunc(am.NewFunc(func(in T) int { return int(in) }))
	r = h.Call(nolog, am.Typed(int(3)), am.Converter(func(a, b int) T { return T(a + b) }))
	if r.Err() != nil || r.Out(0).(int) != 6 {
		t.Fatal(r.Err())
	}
	r = h.Call(nolog, am.Typed(U(3)), am.Converter(func(a U) (T, T) { return T(a), T(a + 1) }))
	if r.Err() != nil {
		t.Fatal(r.Err())
	}
}

func TestD5(t *testing.T) {
	for i := 0; i < 500; i++ {
		f := am.MustFunc(am.NewFunc(func(in struct {
			am.Struct
			A T `argmapper:"a,subtype=s"`
			B T `argmapper:",typeOnly,subtype=s"`
		}) int {
			return int(in.A)
		}))
		r := f.Call(nolog, am.Typed(T(3)))
		_ = r
	}
}

func TestD6(t *testing.T) {
	f := am.MustFunc(am.NewFunc(func(a T) int { return int(a) }))
	e := errors.New("gen failed")
	r := f.Call(nolog, am.Typed(U(1)), am.ConverterGen(func(v am.Value) (*am.Func, error) {
		return nil, e
	}))
	if r.Err() == nil {
		t.Fatal("expected error")
	}
}

func TestD7(t *testing.T) {
	f := am.MustFunc(am.NewFunc(func(c C) int { return int(c) }))
	g, err := f.Redefine(nolog,
		am.Converter(func(a A) B { return B(a) }, func(b B) C { return C(b) }),
		am.FilterInput(am.FilterType(reflect.TypeOf(A(0)))))
	if err != nil {
		t.Fatal(err)
	}
	vals := g.Input().Values()
	if len(vals) != 1 || vals[0].Type != reflect.TypeOf(A(0)) {
		t.Fatalf("inputs: %v", vals)
	}
	r := g.Call(nolog, am.Typed(A(4)))
	if r.Err() != nil || r.Out(0).(int) != 4 {
		t.Fatal(r.Err())
	}
}

func TestD8(t *testing.T) {
	f := am.MustFunc(am.NewFunc(func(a A, b B) int { return int(a) + int(b) }))
	g, err := f.Redefine(nolog, am.Typed(A(1)))
	if err != nil {
		t.Fatal(err)
	}
	vals := g.Input().Values()
	if len(vals) != 1 || vals[0].Type != reflect.TypeOf(B(0)) {
		t.Fatalf("inputs: %v", vals)
	}
	r := g.Call(nolog, am.Typed(B(4)))
	if r.Err() != nil || r.Out(0).(int) != 5 {
		t.Fatal(r.Err())
	}
}

type outS struct {
	am.Struct
	A T
}

func TestD9(t *testing.T) {
	n := 0
	conv := am.MustFunc(am.NewFunc(func(u U) *outS { n++; return &outS{A: T(u)} }, am.FuncOnce()))
	f := am.MustFunc(am.NewFunc(func(in struct {
		am.Struct
		A T
	}) int {
		return int(in.A)
	}))
	for i := 0; i < 3; i++ {
		r := f.Call(nolog, am.Typed(U(5)), am.ConverterFunc(conv))
		if r.Err() != nil || r.Out(0).(int) != 5 {
			t.Fatal(r.Err())
		}
	}
	if n != 1 {
		t.Fatal(n)
	}
}

func TestD10(t *testing.T) {
	if _, err := am.NewFunc(nil); err == nil {
		t.Fatal("expected error")
	}
	f := am.MustFunc(am.NewFunc(func(a T) int { return int(a) }))
	r := f.Call(nolog, am.Typed(T(1)), am.Converter(nil))
	if r.Err() == nil {
		t.Fatal("expected error")
	}
}

func TestD11(t *testing.T) {
	opt := am.NamedSubtype("A", T(1), "st")
	f := am.MustFunc(am.NewFunc(func(in struct {
		am.Struct
		A T `argmapper:"a,subtype=st"`
	}) int {
		return int(in.A)
	}))
	var wg sync.WaitGroup
	for i := 0; i < 8; i++ {
		wg.Add(1)
		go func() {
			defer wg.Done()
			for j := 0; j < 200; j++ {
				if r := f.Call(nolog, opt); r.Err() != nil {
					t.Error(r.Err())
					return
				}
			}
		}()
	}
	wg.Wait()
}

func TestD12(t *testing.T) {
	for iter := 0; iter < 50; iter++ {
		var mu sync.Mutex
		n := 0
		gate := make(chan struct{})
		conv := am.MustFunc(am.NewFunc(func(u U) T {
			mu.Lock()
			n++
			mu.Unlock()
			<-gate
			return T(u)
		}, am.FuncOnce()))
		f := am.MustFunc(am.NewFunc(func(a T) int { return int(a) }))
		var wg sync.WaitGroup
		for i := 0; i < 4; i++ {
			wg.Add(1)
			go func() {
				defer wg.Done()
				f.Call(nolog, am.Typed(U(5)), am.ConverterFunc(conv))
			}()
		}
		// let goroutines reach the body
		for k := 0; k < 1000; k++ {
			runtimeGosched()
		}
		close(gate)
		wg.Wait()
		if n != 1 {
			t.Fatalf("once body ran %d times", n)
		}
	}
}

func TestD15(t *testing.T) {
	f := am.MustFunc(am.NewFunc(func(in struct {
		am.Struct
		X T
		Y U
	}) int {
		return 0
	}))
	_, err := f.Redefine(nolog,
		am.FilterInput(am.FilterOr(am.FilterType(reflect.TypeOf(A(0))), am.FilterType(reflect.TypeOf(B(0))))),
		am.Converter(func(in struct {
			am.Struct
			C A
		}) T {
			return 0
		}, func(in struct {
			am.Struct
			C B
		}) U {
			return 0
		}))
	if err == nil {
		t.Fatal("expected an error for two required inputs named c")
	}
}

type Iface interface{ M() }
type Impl int

func (Impl) M() {}

func TestD16(t *testing.T) {
	// a parameter of interface type with subtype "s" must not receive a
	// converter output of the same interface type labelled with subtype "t"
	f := am.MustFunc(am.NewFunc(func(in struct {
		am.Struct
		A Iface `argmapper:"a,subtype=s"`
	}) int {
		return int(in.A.(Impl))
	}))
	r := f.Call(nolog, am.Converter(func() struct {
		am.Struct
		V Iface `argmapper:",typeOnly,subtype=t"`
	} {
		return struct {
			am.Struct
			V Iface `argmapper:",typeOnly,subtype=t"`
		}{V: Impl(7)}
	}))
	if r.Err() == nil {
		t.Fatalf("subtype s parameter received the subtype t value: %v", r.Out(0))
	}
}

// ---- known finding D17 (C01): recorded, not repaired ----
type IA interface{ M() }
type IB interface{ M() } // same method set as IA: the two interface types implement each other

type T9 int

// TestKnownD17 FAILS while the finding is present: a parameter of type IA
// with subtype "b" receives a converter result labelled IA with subtype "a",
// through the subtype-less intermediate output of the mutually implementing
// interface type IB.
func TestKnownD17(t *testing.T) {
	bad := 0
	for i := 0; i < 50; i++ {
		f := am.MustFunc(am.NewFunc(func(in struct {
			am.Struct
			V IA `argmapper:",typeOnly,subtype=b"`
		}) int {
			return int(in.V.(Impl))
		}))
		r := f.Call(nolog,
			am.Converter(func() struct {
				am.Struct
				V IA `argmapper:",typeOnly,subtype=a"`
			} {
				return struct {
					am.Struct
					V IA `argmapper:",typeOnly,subtype=a"`
				}{V: Impl(7)}
			}, func(x IB) T9 { return 0 }))
		if r.Err() == nil {
			bad++
		}
	}
	if bad > 0 {
		t.Fatalf("parameter (IA, subtype b) received the value labelled (IA, subtype a) in %d/50 calls", bad)
	}
}

// ---- D18 (C05): named 2-cycle of single-input converters ----
type W1 int
type W2 int
type W3 int
type W4 int
type W5 int
type W6 int

func TestD18(t *testing.T) {
	for i := 0; i < 100; i++ {
		target := am.MustFunc(am.NewFunc(func(in struct {
			am.Struct
			B W6
		}) int {
			return int(in.B)
		}))
		g1 := func(x W1) struct {
			am.Struct
			B W2
		} {
			return struct {
				am.Struct
				B W2
			}{B: W2(x)}
		}
		g2 := func(x W2) struct {
			am.Struct
			A W3 `argmapper:",subtype=s"`
		} {
			return struct {
				am.Struct
				A W3 `argmapper:",subtype=s"`
			}{A: W3(x)}
		}
		h1 := func(x W4) struct {
			am.Struct
			A W5
		} {
			return struct {
				am.Struct
				A W5
			}{A: W5(x)}
		}
		h2 := func(x W5) struct {
			am.Struct
			B W6 `argmapper:",subtype=s"`
		} {
			return struct {
				am.Struct
				B W6 `argmapper:",subtype=s"`
			}{B: W6(x)}
		}
		c1 := func(in struct {
			am.Struct
			A W3
		}) struct {
			am.Struct
			B W6
		} {
			return struct {
				am.Struct
				B W6
			}{B: W6(in.A)}
		}
		c2 := func(in struct {
			am.Struct
			B W6
		}) struct {
			am.Struct
			A W3
		} {
			return struct {
				am.Struct
				A W3
			}{A: W3(in.B)}
		}
		r := target.Call(nolog, am.Named("b", W1(1)), am.Named("a", W4(4)), am.Converter(g1, g2, h1, h2, c1, c2))
		if r.Err() != nil {
			t.Fatalf("derivable call failed: %v", r.Err())
		}
	}
}

// ---- D19 (C15, C06): BuildFunc with a nil input set ----
func TestD19(t *testing.T) {
	out, err := am.NewValueSet([]am.Value{{Name: "a", Type: reflect.TypeOf(int(0))}})
	if err != nil {
		t.Fatal(err)
	}
	// BuildFunc documents that a nil input (or output) set stands for "no values"
	f, err := am.BuildFunc(nil, out, func(in, o *am.ValueSet) error {
		o.Named("a").Value = reflect.ValueOf(42)
		return nil
	})
	if err != nil {
		t.Fatal(err)
	}
	r := f.Call(nolog)
	if r.Err() != nil {
		t.Fatal(r.Err())
	}
	// and as a provider for another function
	g := am.MustFunc(am.NewFunc(func(in struct {
		am.Struct
		A int
	}) int {
		return in.A
	}))
	r = g.Call(nolog, am.ConverterFunc(f))
	if r.Err() != nil || r.Out(0).(int) != 42 {
		t.Fatal(r.Err())
	}
}

// ---- D20 (C08): a redefined function with an input of an interface type ----
type StrImpl int

func (i StrImpl) String() string { return fmt.Sprint(int(i)) }

func TestD20(t *testing.T) {
	f := am.MustFunc(am.NewFunc(func(in struct {
		am.Struct
		W fmt.Stringer
		N int
	}) string {
		return in.W.String()
	}))
	g, err := f.Redefine(nolog, am.Named("n", 1))
	if err != nil {
		t.Fatal(err)
	}
	for _, v := range g.Input().Values() {
		t.Logf("input %s", v.String())
	}
	r := g.Call(nolog, am.Named("w", StrImpl(5)))
	t.Logf("redefined with Named: err=%v", r.Err() != nil)
	r2 := g.Call(nolog, am.Typed(StrImpl(5)))
	t.Logf("redefined with Typed: err=%v", r2.Err() != nil)
	if r.Err() != nil && r2.Err() != nil {
		t.Fatalf("the redefined function cannot be called with a value for its declared input: %v", reflect.TypeOf(r2.Err()))
	}
}


// ---- D21 (C12): Redefine copied a FuncOnce function without its lock (run with -race) ----
func TestD21(t *testing.T) {
	for i := 0; i < 300; i++ {
		conv := am.MustFunc(am.NewFunc(func(s string) int { return len(s) }, am.FuncOnce()))
		f := am.MustFunc(am.NewFunc(func(n int) int { return n }))
		var wg sync.WaitGroup
		wg.Add(2)
		go func() { defer wg.Done(); f.Call(nolog, am.Typed("abc"), am.ConverterFunc(conv)) }()
		go func() {
			defer wg.Done()
			f.Redefine(nolog, am.ConverterFunc(conv), am.FilterInput(am.FilterType(reflect.TypeOf(""))))
		}()
		wg.Wait()
	}
}

// ---- D22 (C15): NewValueSet pasted the subtype raw into a struct tag: a quote,
// backslash or newline in it was truncated, interpreted, or made the tag unreadable ----
func TestD22(t *testing.T) {
	intT := reflect.TypeOf(0)
	for _, st := range []string{`a"b`, `a\qb`, `a\`, "a\nb", `a\nb`, `x y`, `k="v"`} {
		for _, name := range []string{"", "n"} {
			set, err := am.NewValueSet([]am.Value{{Name: name, Type: intT, Subtype: st}})
			if err != nil {
				t.Fatalf("subtype %q name %q: %v", st, name, err)
			}
			vs := set.Values()
			if len(vs) != 1 || vs[0].Name != name || vs[0].Subtype != st || vs[0].Type != intT {
				t.Fatalf("subtype %q name %q: reported back as %#v", st, name, vs)
			}
			if v := set.TypedSubtype(intT, st); v == nil {
				t.Fatalf("subtype %q name %q: TypedSubtype does not find the value", st, name)
			}
		}
	}
}

// ---- D23 (C06, C15): a value name that is not a Go identifier ("a-b", "1a", "_x" -- legal
// in a struct tag and in Named(...)) made NewValueSet and Redefine panic in reflect.StructOf ----
func TestD23(t *testing.T) {
	intT := reflect.TypeOf(0)
	for _, name := range []string{"a-b", "1a", "a b", "a.b", "_x"} {
		func() {
			defer func() {
				if r := recover(); r != nil {
					t.Fatalf("NewValueSet with name %q panicked: %v", name, r)
				}
			}()
			set, err := am.NewValueSet([]am.Value{{Name: name, Type: intT}})
			if err != nil {
				t.Fatalf("name %q: %v", name, err)
			}
			if v := set.Named(name); v == nil || v.Type != intT {
				t.Fatalf("name %q: not found by name; values %v", name, set.Values())
			}
		}()
	}
	// Redefine: the parameter is named by a tag
	f := am.MustFunc(am.NewFunc(func(in struct {
		am.Struct
		A int `argmapper:"a-b"`
	}) int {
		return in.A + 1
	}))
	if r := f.Call(nolog, am.Named("a-b", 3)); r.Err() != nil || r.Out(0).(int) != 4 {
		t.Fatalf("plain call: %v", r.Err())
	}
	var g *am.Func
	var err error
	func() {
		defer func() {
			if r := recover(); r != nil {
				t.Fatalf("Redefine panicked: %v", r)
			}
		}()
		g, err = f.Redefine(nolog)
	}()
	if err != nil {
		t.Fatalf("Redefine: %v", err)
	}
	ins := g.Input().Values()
	if len(ins) != 1 || ins[0].Name != "a-b" {
		t.Fatalf("inputs of the redefined function: %v", ins)
	}
	if r := g.Call(nolog, am.Named("a-b", 5)); r.Err() != nil || r.Out(0).(int) != 6 {
		t.Fatalf("calling the redefined function: err=%v", r.Err())
	}
}

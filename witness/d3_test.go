package wit

import (
	"runtime/debug"
	"testing"

	am "github.com/hashicorp/go-argmapper"
)

func TestD3(t *testing.T) {
	debug.SetMaxStack(32 << 20)
	f := am.MustFunc(am.NewFunc(func(r R) int { return int(r) }))
	r := f.Call(nolog, am.Typed(P(1)),
		am.Converter(func(p P, q Q) R { return R(p) }, func(p P, r R) Q { return Q(p) }))
	if r.Err() == nil {
		t.Fatal("expected error")
	}
}
